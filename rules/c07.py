"""C07 — semantically computed types reach code generation unchanged in meaning.

C07.1  kinds the printer cannot print (its diverging arms) are eliminated by the sanitiser in every position
C07.2  generated helper names: the counter only ever increments; every helper definition of the tail is inserted
C07.3  materialisation dispatches totally over tags / proper subtypes / atoms (no value-returning catch-all)
C07.4  polarity: excluded literal sets are materialised under `!allowed`; negative atoms (only) are wrapped in Not
"""
import re
from facts import children as _children
from facts import walk, strip_block, is_panic_macro_node, WASM
from rules.c04 import arm_is_panic, pat_variants
from mirflow import FnFlow, Origins, op_place

LEVEL = "other"

RK = "ast::runtype::RuntypeKind::"


def locals_in(n):
    return [x["name"] for x in walk(n) if x["k"] == "Path" and x.get("res") == "local"]


def run(cx, rep):
    F = cx.rs
    rep.explanation = (
        "Structural rules on the typed HIR/MIR of the semtype -> Runtype materialisation: the set U of RuntypeKind variants "
        "the printer cannot print is read from the diverging arms of print_runtype; the sanitiser must remove every member "
        "of U inside intersections and must not let one pass at the top level or inside a union; the name counter is only "
        "incremented and every generated helper definition is inserted; the tag/proper-subtype/atom dispatch has no "
        "value-returning catch-all; `maybe_not` is always called with `!allowed` of the enclosing arm and Not wraps exactly "
        "the negative atoms of a DNF clause. Decides shape, not the meaning of the materialised type.")
    rep.trusted = ["rustc typed HIR / MIR"]
    rep.assumptions = ["C05/C06 for the semantic layer"]

    # ---------------------------------------------------------------- C07.1
    rep.rule("C07.1", "unprintable kinds never reach the printer")
    # the printer's dispatch over the IR, by role: the functions under src/print/ that match on RuntypeKind; the
    # kinds whose arm diverges are the ones the printer cannot print
    pr = [f for f in F.fns.values() if f.crate != WASM and "/src/print/" in (f.file or "") and f.id in F.hir
          and any(n["k"] == "Match" and (n.get("scrut_adt") or "").endswith("RuntypeKind") and len(n["arms"]) >= 8 for n in walk(F.hir[f.id]["body"]))]
    if not pr:
        rep.anchor_missing("C07.1", "the printer's dispatch over RuntypeKind (a match with >= 8 arms under src/print/)")
        return
    U = set()
    for f_ in pr:
        for n in walk(F.hir[f_.id]["body"]):
            if n["k"] == "Match" and (n.get("scrut_adt") or "").endswith("RuntypeKind") and len(n["arms"]) >= 8:
                for a in n["arms"]:
                    if arm_is_panic(a["body"]):
                        for v in pat_variants(a["pat"]):
                            if v.startswith(RK):
                                U.add(v[len(RK):])
    rep.ob("C07.1", "U", len(U) >= 1, "no diverging arm found in print_runtype (anchor lost)", pr[0].loc(), sample={"unprintable_kinds": sorted(U)})
    # the sanitiser: method of Runtype that matches on RuntypeKind::AllOf and recurses
    # (by role: the recursive Runtype method that dispatches on RuntypeKind with an AllOf arm and - itself or through
    # the private helpers its arms were moved into - asks the engine whether a member is empty)
    def walk_with_helpers(root, crate, depth=2, seen=None):
        seen = seen if seen is not None else set()
        for n in walk(root):
            yield n
            if depth > 0 and n["k"] in ("Call", "MethodCall"):
                cal = n.get("callee") if n["k"] == "Call" else (n.get("resolved") or n.get("callee"))
                tg = F._callee_gid(crate, cal) if cal else None
                if tg in F.hir and tg not in seen and F.fns.get(tg) is not None and F.fns[tg].vis != "Public":
                    seen.add(tg)
                    for x in walk_with_helpers(F.hir[tg]["body"], crate, depth - 1, seen):
                        yield x
    san = []
    for g, f in F.fns.items():
        if f.impl_self == "ast::runtype::Runtype" and f.mir and f.kind == "AssocFn":
            t = F.hir.get(g)
            if not t or not any(g in F.reachable([h], foreign_callbacks=False) for h in F.edges.get(g, ())):
                continue
            own_dispatch = any(n["k"] == "Match" and (n.get("scrut_adt") or "").endswith("RuntypeKind") and any((RK + "AllOf") in pat_variants(a["pat"]) for a in n["arms"]) for n in walk(t["body"]))
            if own_dispatch and any(n["k"] == "MethodCall" and (n.get("callee") or "").endswith("SemTypeOps::is_empty") for n in walk_with_helpers(t["body"], f.crate)):
                san.append(f)
    if len(san) != 1:
        rep.anchor_missing("C07.1", "sanitiser (Runtype method that drops empty members and Not members)", str([f.id for f in san]))
    else:
        sf = san[0]
        tree = F.hir[sf.id]
        top = [n for n in walk(tree["body"]) if n["k"] == "Match" and (n.get("scrut_adt") or "").endswith("RuntypeKind")]
        top = top[0] if top else None
        handled = {}
        catch_all = None
        if top:
            for a in top["arms"]:
                vs = pat_variants(a["pat"])
                for v in vs:
                    if v.startswith(RK):
                        handled[v[len(RK):]] = a
                    elif v == "_" or a["pat"]["k"] == "P.Binding":
                        catch_all = a
                if a["pat"]["k"] == "P.Binding":
                    catch_all = a
        # (b) inside the AllOf arm every u in U is filtered out
        allof = handled.get("AllOf")
        for u in sorted(U):
            ok = False
            if allof:
                for n in walk_with_helpers(allof["body"], sf.crate):
                    if n["k"] == "Closure":
                        pats = [x for x in walk(n["body"]) if x["k"] in ("P.TupleStruct", "P.Expr", "P.Struct") and (x.get("def") or "") == RK + u]
                        nots = [x for x in walk(n["body"]) if x["k"] == "Unary" and x["op"] == "Not"]
                        if pats and nots:
                            ok = True
            rep.ob("C07.1", "intersection-members/%s" % u, ok,
                   "the sanitiser %s no longer filters %s members out of an intersection: `A & Not<B>` reaches the printer, whose %s arm panics" % (sf.id, u, u),
                   sf.loc(), sample={"sanitiser": sf.id, "filters": u})
        # (c) top-level / union position
        for u in sorted(U):
            passes = u not in handled and catch_all is not None and not arm_is_panic(catch_all["body"])
            rep.ob("C07.1", "unprintable-passes-sanitiser/%s" % u, not passes,
                   "the sanitiser %s returns a top-level (or union-member) %s unchanged through its catch-all arm; producers of %s: %s" % (
                       sf.id, u, u, producers(F, u)), "%s:%s" % (sf.file, (catch_all or {}).get("line")))
        # the sanitiser is applied to the result of the Exclude / conditional route
        callers = [c for c in F.all_calls if (c.best or "").endswith("remove_nots_of_intersections_and_empty_of_union") or (c.local_target and sf.id in c.local_target)]
        ext = [c for c in callers if c.fn.id != sf.id and not c.fn.id.startswith(sf.id)]
        rep.floor("C07.1", "external callers of the sanitiser", len(ext), 1)

    # ---------------------------------------------------------------- C07.2
    rep.rule("C07.2", "generated names: counter only increments; every helper definition is inserted (INV-GENNAME)")
    n_w = 0
    for g, f in F.fns.items():
        if not f.mir or f.crate == WASM:
            continue
        alias = set()
        for b in f.mir["blocks"]:
            for st in b["stmts"]:
                if st["k"] == "Assign" and not st["place"]["p"]:
                    rv = st["rv"]
                    src = op_place(rv["op"]) if rv["k"] == "Use" else (rv.get("place") if rv["k"] in ("Ref", "CopyForDeref") else None)
                    if src is not None and src["p"] and src["p"][-1].endswith("::counter") and "usize" in f.mir["locals"][st["place"]["l"]]["ty"] \
                            and f.mir["locals"][st["place"]["l"]]["ty"].startswith("&"):
                        alias.add(st["place"]["l"])
        for b in f.mir["blocks"]:
            for st in b["stmts"]:
                if st["k"] != "Assign":
                    continue
                pl = st["place"]
                direct = bool(pl["p"]) and pl["p"][-1].endswith("::counter") and "usize" == f.mir["locals"][0]["ty"][:0] + "usize"[:5]
                direct = bool(pl["p"]) and pl["p"][-1].endswith("::counter")
                through = pl["p"] == ["*"] and pl["l"] in alias
                if not direct and not through:
                    continue
                n_w += 1
                rv = st["rv"]
                ok = False
                if rv["k"] == "Use":
                    src = op_place(rv["op"])
                    if src is not None:
                        # _x = AddWithOverflow(copy counter, const 1); counter = move (_x.0)
                        for bb in f.mir["blocks"]:
                            for s2 in bb["stmts"]:
                                if s2["k"] == "Assign" and s2["place"]["l"] == src["l"] and s2["rv"]["k"] == "BinaryOp" and s2["rv"]["op"].startswith("Add"):
                                    a, b2 = s2["rv"]["a"], s2["rv"]["b"]
                                    if b2.get("k") == "const" and (b2.get("v") or "").startswith("1") and op_place(a) is not None:
                                        ok = True
                if rv["k"] == "BinaryOp" and rv["op"].startswith("Add") and rv["b"].get("k") == "const" and (rv["b"].get("v") or "").startswith("1"):
                    ok = True
                if rv["k"] in ("Aggregate",) or (rv["k"] == "Use" and rv["op"].get("k") == "const"):
                    ok = f.name in ("new",)  # initialisation in a constructor
                rep.ob("C07.2", "counter-write/%s" % f.id, ok,
                       "the generated-name counter is written in %s by something other than `+= 1`: helper names (SemtypeRecursiveGenerated(n)) may repeat and be defined twice" % f.id,
                       "%s:%s" % (f.file, st.get("line")), sample={"fn": f.id, "rvalue": rv["k"]})
    rep.floor("C07.2", "writes of the counter", n_w, 1)
    s2r = [f for f in F.fns.values() if f.name == "semtype_to_runtype" and f.crate != WASM]
    if len(s2r) != 1:
        rep.anchor_missing("C07.2", "semtype_to_runtype")
    else:
        f = s2r[0]
        flow = FnFlow(f)
        O = Origins(flow)
        calls = [c for c in f.calls if (c.best or "").endswith("semtype_to_runtypes")]
        ins = [c for c in f.calls if (c.best or "").endswith("insert_definition")]
        rep.ob("C07.2", "tail-inserted", len(calls) == 1 and len(ins) >= 1, "semtype_to_runtype must insert the helper definitions returned by semtype_to_runtypes", f.loc())
        for c in ins:
            # argument derives from the iterator over the tail, result is propagated with `?`
            o = O.of_operand(c.term["args"][2])
            from_tail = any(x[0] == "call" and x[1].endswith("semtype_to_runtypes") for x in o)
            uses = [t for t in f.calls if (t.path or "").endswith("Try::branch") and op_place(t.term["args"][0]) and op_place(t.term["args"][0])["l"] == c.term["dest"]["l"]]
            rep.ob("C07.2", "tail-from-materialisation", from_tail, "inserted definition does not come from semtype_to_runtypes", "%s:%s" % (c.file, c.line))
            rep.ob("C07.2", "insert-result-propagated", len(uses) == 1, "the result of insert_definition is dropped (a clash would go unnoticed)", "%s:%s" % (c.file, c.line))
        # the head of the materialisation is named too (the name the caller passed in); when the result is
        # recursive at the top level it refers to itself by that name, so the caller must define it as well
        tree = F.hir.get(f.id)
        head_fields = set()
        for n in walk(tree["body"]):
            if n["k"] == "Field" and locals_in(n["e"]) == ["head"]:
                head_fields.add(n["name"])
        head_defined = "name" in head_fields and any(n["k"] == "MethodCall" and n["method"] == "insert_definition" and "head" in locals_in(n) for n in walk(tree["body"]))
        rep.ob("C07.2", "head-definition-dropped", head_defined or not head_fields,
               "semtype_to_runtype returns head.schema but never defines head.name (semtype_to_runtypes filters the head out of the helper list): when the semantic result is recursive at its top level the returned type refers to a name (`AnyName`) that is defined nowhere",
               f.loc(), sample={"head_fields_used": sorted(head_fields)})
        cnt = [c for c in calls if any(a.get("place") for a in c.term["args"])]
        for c in calls:
            # the counter argument must be a `&mut` borrow of the frontend's own `counter` field (not a copy)
            if len(c.term["args"]) < 4:
                rep.ob("C07.2", "counter-threaded", False,
                       "semtype_to_runtypes is no longer handed the compilation's name counter (`&mut self.counter`): the rule cannot establish that generated helper names are defined exactly once",
                       "%s:%s" % (c.file, c.line), sample={"counter_argument_is_mut_borrow_of_field": False})
                continue
            a = c.term["args"][3]
            ok = False
            l = op_place(a)["l"] if op_place(a) else None
            seen = set()
            while l is not None and l not in seen:
                seen.add(l)
                nxt = None
                for _, d in flow.defs_of(l):
                    rv = d.get("rv")
                    if rv and rv["k"] == "Ref" and rv.get("mut"):
                        pl = rv["place"]
                        if any(p.endswith("::counter") for p in pl["p"]) and pl["l"] == 1:
                            ok = True
                        elif all(p == "*" for p in pl["p"]):
                            nxt = pl["l"]
                    elif rv and rv["k"] == "Use" and op_place(rv["op"]) is not None and not op_place(rv["op"])["p"]:
                        nxt = op_place(rv["op"])["l"]
                l = nxt
            rep.ob("C07.2", "counter-threaded", ok,
                   "semtype_to_runtypes must receive `&mut self.counter` itself; a copy restarts the numbering of generated helper types, so two operations can define the same generated name with different bodies",
                   "%s:%s" % (c.file, c.line), sample={"counter_argument_is_mut_borrow_of_field": ok})

    # ---------------------------------------------------------------- C07.3
    rep.rule("C07.3", "tag / proper-subtype / atom dispatch of the materialisation is total (no value-returning catch-all)")
    n_m = 0
    for g in sorted(F.hir):
        f = F.fns.get(g)
        if f is None or not (f.file or "").endswith("subtyping/to_schema.rs"):
            continue
        for n in walk(F.hir[g]["body"]):
            if n["k"] != "Match" or n.get("src") != "Normal":
                continue
            adt = n.get("scrut_adt") or ""
            if not re.search(r"(SubTypeTag|ProperSubtype|bdd::Atom)$", adt):
                continue
            n_m += 1
            for a in n["arms"]:
                if a["pat"]["k"] in ("P.Wild", "P.Binding") and not arm_is_panic(a["body"]):
                    rep.ob("C07.3", "%s/%s" % (f.id.rsplit("::", 1)[-1], adt.rsplit("::", 1)[-1]), False,
                           "match over %s in %s has a catch-all arm that produces a value: a tag/atom kind would be materialised as something else" % (adt, f.id),
                           "%s:%s" % (f.file, a["line"]))
    # every arm of the tag / proper-subtype dispatch that accumulates the materialised union contributes to it.  The
    # dispatch is located by role: a match over SubTypeTag / ProperSubtype in to_schema.rs of which some arm adds to a
    # collection (wherever a refactoring has put it)
    contributing = set()
    adts_seen = set()
    for g in sorted(F.hir):
        f = F.fns.get(g)
        if f is None or not (f.file or "").endswith("subtyping/to_schema.rs"):
            continue
        for n in walk(F.hir[g]["body"]):
            if n["k"] != "Match" or n.get("src") != "Normal":
                continue
            m0 = re.search(r"(SubTypeTag|ProperSubtype|bdd::Atom)$", n.get("scrut_adt") or "")
            if m0:
                adts_seen.add(m0.group(1))
            if not re.search(r"(SubTypeTag|ProperSubtype)$", n.get("scrut_adt") or ""):
                continue
            adds = lambda body: any(x["k"] == "MethodCall" and x["method"] in ("insert", "extend", "push") for x in walk(body))
            if not any(adds(a["body"]) for a in n["arms"]):
                continue
            contributing.add((n.get("scrut_adt") or "").rsplit("::", 1)[-1])
            for a in n["arms"]:
                if arm_is_panic(a["body"]):
                    continue
                v = (a["pat"].get("def") or "_").rsplit("::", 1)[-1]
                contributes = adds(a["body"])
                rep.ob("C07.3", "contributes/%s::%s" % ((n.get("scrut_adt") or "").rsplit("::", 1)[-1], v), contributes,
                       "%s: the %s arm adds nothing to the materialised union: values of that tag are in the semantic type but not in the type handed to code generation" % (f.name, v),
                       "%s:%s" % (f.file, a["line"]), sample={"arm": v})
    rep.ob("C07.3", "scan", True, sample={"dispatch_matches": n_m})
    rep.floor("C07.3", "kinds dispatched in to_schema.rs (SubTypeTag, ProperSubtype, Atom)", len(adts_seen), 3)
    rep.floor("C07.3", "accumulating dispatches (SubTypeTag, ProperSubtype)", len(contributing), 2)

    rep.rule("C07.5", "atom materialisation depends on every field of the atomic type")
    atom_field_coverage(cx, rep, F)
    rep.rule("C07.6", "an atom is printed by the materialiser of the table it was fetched from")
    family_flow_rule(cx, rep, F, "C07.6")
    from rules.c05 import mixed_family_arm_rule
    mixed_family_arm_rule(cx, rep, "C07.6")
    # ---------------------------------------------------------------- C07.4
    rep.rule("C07.4", "polarity of materialised literal sets and atoms")
    n_mn = 0
    # the negation wrapper, by signature: fn(Runtype, bool) -> Runtype in to_schema.rs (whatever it is called)
    wrappers = {g for g, f in F.fns.items() if (f.file or "").endswith("subtyping/to_schema.rs") and f.kind != "Closure"
                and [t.rsplit("::", 1)[-1] for t in (f.inputs or [])] == ["Runtype", "bool"] and (f.output or "").endswith("Runtype")}
    rep.floor("C07.4", "negation wrapper fn(Runtype, bool) -> Runtype", len(wrappers), 1)
    n_conj = 0
    for g in sorted(F.hir):
        f = F.fns.get(g)
        if f is None or not (f.file or "").endswith("subtyping/to_schema.rs"):
            continue
        tree = F.hir[g]
        # arms binding `allowed`
        for m in walk(tree["body"]):
            if m["k"] != "Match":
                continue
            for a in m["arms"]:
                flds = {fl["name"]: fl["pat"].get("name") for fl in a["pat"].get("fields", [])} if a["pat"]["k"] == "P.Struct" else {}
                if "allowed" not in flds:
                    continue
                bound = flds["allowed"]
                for c in walk(a["body"]):
                    if c["k"] == "Call" and F._callee_gid(f.crate, c.get("callee") or "") in wrappers:
                        n_mn += 1
                        flag = strip_block(c["args"][1])
                        # a local that names the flag (`let negate = !*allowed;`) stands for its only initialiser
                        hops = 0
                        while flag["k"] == "Path" and flag.get("res") == "local" and hops < 4:
                            inits = [st_["init"] for st_ in walk(a["body"]) if st_["k"] == "LetStmt" and st_.get("init") is not None
                                     and st_["pat"].get("k") == "P.Binding" and st_["pat"].get("lid") == flag.get("lid") and not st_["pat"].get("mut")]
                            assigned = any(x["k"] in ("Assign", "AssignOp") and x["l"]["k"] == "Path" and x["l"].get("lid") == flag.get("lid") for x in walk(a["body"]))
                            if len(inits) != 1 or assigned:
                                break
                            flag = strip_block(inits[0])
                            hops += 1
                        ok = flag["k"] == "Unary" and flag["op"] == "Not" and locals_in(flag["e"]) == [bound]
                        rep.ob("C07.4", "maybe_not/%s" % (a["pat"].get("def") or "?").rsplit("::", 1)[-1], ok,
                               "maybe_not must be called with `!%s` of the enclosing %s arm (excluded sets are materialised as Not)" % (bound, a["pat"].get("def")),
                               "%s:%s" % (f.file, c["line"]))
        if g in wrappers:
            ps = [p.get("name") for p in tree["params"]]
            ifs = [n for n in walk(tree["body"]) if n["k"] == "If"]
            ok = len(ifs) == 1 and locals_in(ifs[0]["cond"]) == [ps[1]] and ifs[0]["cond"]["k"] == "Path" and \
                any((x.get("callee") or "").endswith("::st_not") for x in walk(ifs[0]["then"]) if x["k"] == "Call") and \
                not any((x.get("callee") or "").endswith("::st_not") for x in walk(ifs[0]["else"] or {}) if x["k"] == "Call")
            rep.ob("C07.4", "maybe_not/body", ok, "maybe_not(it, flag) must wrap in Not exactly when flag is true", f.loc())
        loops = [n for n in walk(tree["body"]) if n["k"] == "Match" and n.get("src") == "ForLoopDesugar"]
        if any(x["k"] == "Field" and x["name"] in ("positive", "negative") for lp in loops for x in walk(lp["scrut"])):
            n_conj += 1
            seen = {}
            for lp in loops:
                it = [x["name"] for x in walk(lp["scrut"]) if x["k"] == "Field" and x["name"] in ("positive", "negative")]
                if not it:
                    continue
                def calls_not(node, depth=0, seen_=None):
                    seen_ = seen_ if seen_ is not None else set()
                    for x in walk(node):
                        if x["k"] == "Call" and (x.get("callee") or "").endswith("::st_not"):
                            return True
                        if x["k"] in ("Call", "MethodCall") and depth < 2:
                            tg_ = F._callee_gid(f.crate, (x.get("resolved") or x.get("callee")) or "")
                            h_ = F.fns.get(tg_)
                            # private helpers of the same file only (the materialisers themselves never negate)
                            if h_ is not None and tg_ in F.hir and tg_ not in seen_ and h_.file == f.file and h_.vis != "Public" and tg_ != g:
                                seen_.add(tg_)
                                if calls_not(F.hir[tg_]["body"], depth + 1, seen_):
                                    return True
                    return False
                has_not = calls_not(lp["arms"])
                seen[it[0]] = has_not
            rep.ob("C07.4", "%s/atoms" % f.name, seen == {"positive": False, "negative": True},
                   "%s: Not must wrap exactly the negative atoms of a clause (found %s)" % (f.id, seen), f.loc(), sample={"fn": f.name, "not_applied": seen})
    rep.floor("C07.4", "negation wrapper call sites under an `allowed` arm", n_mn, 2)
    rep.floor("C07.4", "clause materialisers (loops over positive / negative atoms)", n_conj, 1)
    # ---------------------------------------------------------------- C07.7
    rep.rule("C07.7", "twin materialisers agree (list / set, map / mapping)")
    import twins
    twins.twin_rule(cx, rep, "C07.7", r"subtyping/to_schema\.rs", floor=4)
    # ---------------------------------------------------------------- C07.9
    rep.rule("C07.9", "a function that enumerates the values of an enum lists every variant once")
    n79 = enum_enumerator_rule(F, rep, "C07.9", lambda f: f.crate != WASM)
    rep.floor("C07.9", "parameterless functions returning the list of an enum's values", n79, 2)
    # ---------------------------------------------------------------- C07.11
    keyof_duality_rule(cx, rep, "C07.11")
    # ---------------------------------------------------------------- C07.13 (= C11.8)
    optional_part_rule(cx, rep, "C07.13")
    # ---------------------------------------------------------------- C07.12 (= C08.10)
    # every materialised clause of a semantic result ends in the intersection constructor: what it merges into ONE
    # object must denote the intersection, and an object with declared keys next to an index signature does not
    # (the runtime applies an index signature to the undeclared keys only)
    rep.rule("C07.12", "the intersection constructor the materialiser ends in never merges an index signature into an object with declared keys (= C08.10)")
    from rules.c01 import lifted_rules
    lifted_rules(cx, rep, "C07.12", (("rules.c08", "C08.10"),))
    # ---------------------------------------------------------------- C07.14 (= C01.18)
    # semantic indexed access T[K] on a tuple: the element type computed per atom is what code generation receives
    rep.rule("C07.14", "indexed access into a list atom lets the rest element take part from the index that equals the prefix length (= C01.18)")
    lifted_rules(cx, rep, "C07.14", (("rules.c01", "C01.18"),))
    # ---------------------------------------------------------------- C07.10
    rep.rule("C07.10", "a key looked up in the declared properties of an object is not answered without its index signature")
    declared_lookup_rule(cx, rep, "C07.10")
    # ---------------------------------------------------------------- C07.8
    rep.rule("C07.8", "a result built from one element of a sequence payload accounts for the whole sequence")
    carriers = lambda f: f.crate != "canary" and ((f.file or "").endswith(("subtyping/to_schema.rs", "ast/runtype.rs")) or "/src/print/" in (f.file or ""))
    n78 = prefix_read_rule(F, rep, "C07.8", carriers)
    # (no floor on the number of reads: a tree without any prefix read satisfies the rule; the canary keeps the matcher honest)
    rep.ob("C07.8", "scan", True, sample={"prefix_reads_in_the_materialiser_the_IR_and_the_printer": n78})
    if cx.canary is not None:
        hits = prefix_read_rule(cx.canary, None, None, lambda f: True, collect=True)
        rep.ob("C07.8", "control/canary-prefix", any("prefix_truncating" in h for h in hits) and not any("prefix_guarded" in h or "prefix_with_rest" in h for h in hits),
               "positive control: the canary crate's truncating read must be reported and its guarded / rest-using twins must not (reported: %s)" % hits, "canary/rs/src/lib.rs")


ACCESSOR_FAMILY = {"get_mapping_atomic": "mapping", "get_map_atomic": "map", "get_list_atomic": "list", "get_set_atomic": "set"}
CTOR_FAMILY = {"object": "mapping", "record": "mapping", "any_object": "mapping", "map": "map", "tuple": "list", "array": "list", "any_array_like": "list", "set": "set"}


def family_flow_rule(cx, rep, F, rid):
    """Object, Map, tuple/array and Set atoms live in four tables that share two representation types
    (MappingAtomicType, ListAtomic).  An atom fetched from one table must be printed by the materialiser of the same
    family: `get_map_atomic(i)` printed by the function that builds `Runtype::object(..)` turns `Not<Map<K,V>>` into
    `Not<{[k:K]:V}>`, which is vacuous against a Map, so excluded Map types survive the difference.  Decided:
    interprocedural flow, inside to_schema.rs, from the four accessors (through parameters of private helpers) into
    the atomic-typed parameter of every function; a function that directly builds a family's Runtype constructor may
    only receive atoms of that family."""
    from mirflow import FnFlow, Origins, op_local
    fns = {g: f for g, f in F.fns.items() if (f.file or "").endswith("subtyping/to_schema.rs") and f.mir and f.kind != "Closure"}
    atomic = lambda t: "MappingAtomicType" in t or "ListAtomic" in t
    params = {g: [i + 1 for i, t in enumerate(f.inputs or []) if atomic(t)] for g, f in fns.items()}
    fam = {(g, i): set() for g in fns for i in params[g]}
    # direct constructor family of each function (from its HIR; closures are nested in the tree)
    ctor = {}
    for g in fns:
        t = F.hir.get(g)
        ks = set()
        if t is not None:
            for n in walk(t["body"]):
                if n["k"] == "Call":
                    m = re.search(r"Runtype::(\w+)$", n.get("callee") or "")
                    if m and m.group(1) in CTOR_FAMILY:
                        ks.add(CTOR_FAMILY[m.group(1)])
                if n["k"] == "Struct":
                    m = re.search(r"RuntypeKind::(Object|Map|Tuple|Array|Set)$", n.get("def") or "")
                    if m:
                        ks.add({"Object": "mapping", "Map": "map", "Tuple": "list", "Array": "list", "Set": "set"}[m.group(1)])
        ctor[g] = ks
    changed = True
    rounds = 0
    flows = {}
    while changed and rounds < 6:
        changed = False
        rounds += 1
        for g, f in fns.items():
            group = [f] + [c_ for c_ in F.fns.values() if c_.mir and (c_.root == g) and c_.kind == "Closure"]
            for h in group:
                flow = flows.get(h.id)
                if flow is None:
                    flow = flows[h.id] = (FnFlow(h), Origins(FnFlow(h)))
                fl, O = flow
                for c in h.calls:
                    for tg in (c.local_target or []):
                        if tg not in fns or not params.get(tg):
                            continue
                        for i in params[tg]:
                            if i - 1 >= len(c.term["args"]):
                                continue
                            org = O.of_operand(c.term["args"][i - 1])
                            got = set()
                            for o in org:
                                if o[0] == "call":
                                    nm = o[1].rsplit("::", 1)[-1]
                                    if nm in ACCESSOR_FAMILY:
                                        got.add(ACCESSOR_FAMILY[nm])
                                elif o[0] == "param" and h.kind != "Closure" and (g, o[1]) in fam:
                                    got |= fam[(g, o[1])]
                                elif o[0] == "upvar" or (o[0] == "param" and h.kind == "Closure"):
                                    pass
                            if not got <= fam[(tg, i)]:
                                fam[(tg, i)] |= got
                                changed = True
    n = 0
    for (g, i), fs in sorted(fam.items()):
        if not ctor[g]:
            continue
        n += 1
        ok = fs <= ctor[g] if len(ctor[g]) == 1 else True
        rep.ob(rid, "%s/param%d" % (fns[g].name, i), ok,
               "%s builds the %s form but can receive atoms fetched from the %s table(s): an atom of another family is printed as if it were a %s" % (
                   fns[g].id, sorted(ctor[g]), sorted(fs - ctor[g]), sorted(ctor[g])[0] if ctor[g] else "?"),
               fns[g].loc(), sample={"fn": fns[g].name, "builds": sorted(ctor[g]), "receives_atoms_of": sorted(fs)})
    # the inlined form: a closure / function body that fetches an atom from a table and prints it on the spot
    for g in sorted(fns):
        t = F.hir.get(g)
        if t is None:
            continue
        scopes = [("", t["body"])] + [("{%s}" % (x.get("def") or "").rsplit("::", 1)[-1], x) for x in walk(t["body"]) if x["k"] == "Closure"]
        for lab, sc in scopes:
            acc, ks = set(), set()
            for x in own_nodes(sc):
                if x["k"] == "MethodCall" and x["method"] in ACCESSOR_FAMILY:
                    acc.add(ACCESSOR_FAMILY[x["method"]])
                if x["k"] == "Call":
                    m = re.search(r"Runtype::(\w+)$", x.get("callee") or "")
                    if m and m.group(1) in CTOR_FAMILY:
                        ks.add(CTOR_FAMILY[m.group(1)])
            if acc and ks:
                n += 1
                rep.ob(rid, "%s%s/inline" % (fns[g].name, lab), acc <= ks if len(ks) == 1 else True,
                       "%s%s fetches atoms from the %s table(s) and prints them as the %s form" % (fns[g].id, lab, sorted(acc), sorted(ks)),
                       fns[g].loc(), sample={"fn": fns[g].name + lab, "builds": sorted(ks), "fetches": sorted(acc)})
    rep.floor(rid, "materialisers (atomic parameter, or fetched and printed in one body)", n, 4)


def own_nodes(e):
    """nodes of a function body / closure node, nested closures excluded"""
    stack = [e]
    while stack:
        x = stack.pop()
        if isinstance(x, dict):
            if x.get("k") == "Closure" and x is not e:
                continue
            if "k" in x:
                yield x
            stack.extend(v for v in x.values() if isinstance(v, (dict, list)))
        elif isinstance(x, list):
            stack.extend(x)


def atom_field_coverage(cx, rep, F):
    """C07.5: in each <family>_atom_schema(mt: &Rc<Atomic>) every returned value depends, by data or by the
    conditions guarding the return, on every field of the atomic type (table: fields that are empty by construction)"""
    exc = {(e["fn"], e["field"]): e for e in cx.table("c07_atom_fields.json")["ignored"]}
    exc.update({("#" + e["family"], e["field"]): e for e in cx.table("c07_atom_fields.json")["ignored"] if e.get("family")})
    n = 0
    for gid in sorted(F.hir):
        f = F.fns.get(gid)
        if f is None or not (f.file or "").endswith("subtyping/to_schema.rs") or f.kind == "Closure":
            continue
        # materialisers, by role: a parameter of an atomic type and a family constructor built in the body; or the
        # inlined form - a closure / body that binds an atom fetched from a table and builds the constructor itself
        def builds_in(nodes):
            for n_ in nodes:
                if n_["k"] == "Call" and re.search(r"Runtype::(object|record|any_object|map|tuple|array|any_array_like|set)$", n_.get("callee") or ""):
                    return True
                if n_["k"] == "Struct" and re.search(r"RuntypeKind::(Object|Map|Tuple|Array|Set)$", n_.get("def") or ""):
                    return True
            return False
        ins_ = f.inputs or []
        units = []
        if len(ins_) >= 2 and ("MappingAtomicType" in ins_[1] or "ListAtomic" in ins_[1]):
            ps = [p.get("name") for p in F.hir[gid]["params"]]
            if len(ps) >= 2 and builds_in(walk(F.hir[gid]["body"])):
                units.append((F.hir[gid]["body"], ps[1], ins_[1], f.name))
        else:
            t0 = F.hir[gid]
            for lab, sc in [("", t0["body"])] + [("{%s}" % (x.get("def") or "").rsplit("::", 1)[-1], x) for x in walk(t0["body"]) if x["k"] == "Closure"]:
                if not builds_in(own_nodes(sc)):
                    continue
                for st_ in own_nodes(sc):
                    if st_["k"] == "LetStmt" and st_.get("init") is not None and st_["pat"].get("k") == "P.Binding" and \
                            any(x["k"] == "MethodCall" and x["method"] in ACCESSOR_FAMILY for x in own_nodes(st_["init"])):
                        acc_ = next(x for x in own_nodes(st_["init"]) if x["k"] == "MethodCall" and x["method"] in ACCESSOR_FAMILY)
                        units.append((sc["body"] if sc.get("k") == "Closure" else sc, st_["pat"]["name"], acc_.get("ty") or "", f.name + lab + "#" + ACCESSOR_FAMILY[acc_["method"]]))
        for body_, mt, aty, uname in units:
            n = cover_unit(F, rep, exc, f, body_, mt, aty, uname, n)
    rep.floor("C07.5", "return sites of atom materialisers", n, 6)


def cover_unit(F, rep, exc, f, body_, mt, aty, uname, n):
        gid = f.id
        m = re.search(r"Rc<([\w:]+)>", aty)
        adt = F.adts.get(m.group(1)) if m else None
        if adt is None:
            rep.anchor_missing("C07.5", "atomic type of %s" % uname)
            return n
        fields = {fl["name"] for fl in adt["variants"][0]["fields"]}

        def reads(e, env):
            out = set()
            for x in walk(e):
                if x["k"] == "Field" and locals_in(x["e"]) == [mt]:
                    out.add(x["name"])
                if x["k"] == "Path" and x.get("res") == "local" and x["name"] in env:
                    out |= env[x["name"]]
            return out

        results = []

        def always_returns(e):
            e = strip_block(e)
            if e["k"] == "Ret":
                return True
            if e["k"] == "BlockExpr":
                b = e["block"]
                last = (b["stmts"][-1]["e"] if b["stmts"] and b["stmts"][-1]["k"] in ("Semi", "ExprStmt") else None) if b.get("expr") is None else b["expr"]
                return last is not None and always_returns(last)
            if e["k"] == "If" and e.get("else") is not None:
                return always_returns(e["then"]) and always_returns(e["else"])
            return False

        def visit(e, cond, env, tail):
            k = e["k"]
            if k == "BlockExpr":
                b = e["block"]
                cond = set(cond)
                env = dict(env)
                for st in b["stmts"]:
                    if st["k"] == "LetStmt" and st.get("init") is not None:
                        visit(st["init"], cond, env, False)
                        for bnd in walk(st["pat"]):
                            if bnd["k"] == "P.Binding":
                                env[bnd["name"]] = reads(st["init"], env)
                    elif st["k"] in ("Semi", "ExprStmt"):
                        visit(st["e"], cond, env, False)
                        # locals mutated by this statement (assignment, push/insert/extend) now depend on what it reads
                        dep = reads(st["e"], env) | cond
                        for x in walk(st["e"]):
                            tgt = None
                            if x["k"] in ("Assign", "AssignOp") and x["l"]["k"] == "Path" and x["l"].get("res") == "local":
                                tgt = x["l"]["name"]
                            elif x["k"] == "MethodCall" and x["method"] in ("push", "insert", "extend", "push_str", "append"):
                                ls = locals_in(x["recv"])
                                tgt = ls[0] if len(ls) == 1 else None
                            if tgt and tgt != mt:
                                env[tgt] = env.get(tgt, set()) | dep
                        inner = strip_block(st["e"])
                        if inner["k"] == "If" and inner.get("else") is None and always_returns(inner["then"]):
                            cond |= reads(inner["cond"], env)
                if b.get("expr") is not None:
                    visit(b["expr"], cond, env, tail)
                return
            if k == "If":
                c2 = cond | reads(e["cond"], env)
                visit(e["then"], c2, env, tail)
                if e.get("else") is not None:
                    visit(e["else"], c2, env, tail)
                return
            if k == "Match" and not (e.get("src") or "").startswith("TryDesugar"):
                c2 = cond | reads(e["scrut"], env)
                for a in e["arms"]:
                    visit(a["body"], c2, env, tail)
                return
            if k == "Ret":
                if e.get("e") is not None:
                    results.append((e["line"], cond | reads(e["e"], env)))
                return
            # nested returns inside other expressions (e.g. `?` desugaring returns errors: ignore Err paths)
            for x in walk(e):
                if x is not e and x["k"] == "Ret" and x.get("e") is not None and not any("desugar" in mm for mm in (x.get("mac") or [])):
                    results.append((x["line"], cond | reads(x["e"], env)))
            if tail:
                results.append((e["line"], cond | reads(e, env)))

        visit(body_, set(), {}, True)
        for line, got in results:
            n += 1
            missing = {fl for fl in fields - got if (f.name, fl) not in exc and ("#" + uname.rsplit("#", 1)[-1], fl) not in exc}
            rep.ob("C07.5", "%s/%s" % (uname, "+".join(sorted(got)) or "none"), not missing,
                   "%s returns a type that does not depend on the atom's field(s) %s: every list/mapping atom with that shape is materialised alike, whatever those fields hold" % (uname, sorted(missing)),
                   "%s:%s" % (f.file, line), sample={"fn": uname, "return_depends_on": sorted(got)})
        return n


def is_counter_ref(f, local):
    t = f.mir["locals"][local]
    return t.get("name") == "counter" or False


def producers(F, u):
    out = set()
    for c in F.all_calls:
        if (c.best or "").endswith("Runtype::st_not") and u == "StNot":
            out.add(c.fn.id.rsplit("::", 1)[-1])
    return sorted(out)


# ---------------------------------------------------------------------------
# C07.8

PREFIX_METHODS = {"first", "last", "first_mut", "last_mut"}
VIEW_METHODS = {"as_slice", "as_mut_slice", "iter", "deref", "as_ref", "borrow", "clone", "to_vec", "as_mut", "deref_mut"}


def _seq_key(e):
    """identity of a sequence expression: root local + field path, views stripped"""
    path = []
    while True:
        k = e["k"]
        if k in ("AddrOf", "Unary", "DropTemps", "Cast"):
            e = e.get("e") or e.get("expr")
            if e is None:
                return None
            continue
        if k == "MethodCall" and e["method"] in VIEW_METHODS and not e["args"]:
            e = e["recv"]
            continue
        if k == "Field":
            path.append(e["name"])
            e = e["e"]
            continue
        if k == "Path" and e.get("res") == "local":
            return (e["lid"], tuple(reversed(path)))
        return None


def _is_seq_ty(t):
    t = (t or "").lstrip("&").replace("mut ", "").strip()
    return t.startswith(("std::vec::Vec<", "[", "std::collections::VecDeque<", "smallvec::"))


def prefix_reads(tree):
    """[(node, sequence key, sequence expr)] for v.first() / v.last() / v.get(<literal>) / v[<literal>]"""
    out = []
    for n in walk(tree["body"]):
        if n["k"] == "MethodCall":
            if n["method"] in PREFIX_METHODS and not n["args"] and _is_seq_ty(n["recv"].get("ty")):
                out.append((n, _seq_key(n["recv"]), n["recv"]))
            elif n["method"] == "get" and len(n["args"]) == 1 and n["args"][0]["k"] == "Lit" and n["args"][0].get("lit") == "int" and _is_seq_ty(n["recv"].get("ty")):
                out.append((n, _seq_key(n["recv"]), n["recv"]))
        elif n["k"] == "Index" and n["i"]["k"] == "Lit" and n["i"].get("lit") == "int" and _is_seq_ty(n.get("base_ty")):
            out.append((n, _seq_key(n["e"]), n["e"]))
    return [x for x in out if x[1] is not None]


def prefix_read_rule(F, rep, rid, select, collect=False):
    """The materialiser and the printer hand a computed type on: whatever they build from a sequence payload (the items
    of a template literal, the members of a union, the cases of a table entry) must account for the WHOLE sequence.
    Reading only its first / last / k-th element is sound under a length test, or when the rest of the sequence is used
    next to it - on its own it truncates: `Exclude<\\`a${string}\\` | null, null>` was materialised as the constant `a`
    (repaired by the fix recorded in known_findings.json).
    Decided for every v.first() / v.last() / v.get(<literal>) / v[<literal>] on a Vec / slice in the selected files:
    (a) a test of v.len() / v.is_empty() (or a slice pattern on v) occurs at or before it in the function, or
    (b) the region that consumes the element - the arm that binds it, the then-branch of the `if let`, the statements
        after the `let` - uses v again (other than by another prefix read)."""
    hits = []
    n_reads = 0
    for g in sorted(F.hir):
        f = F.fns.get(g)
        if f is None or not select(f):
            continue
        tree = F.hir[g]
        reads = prefix_reads(tree)
        if not reads:
            continue
        parents = {}
        for n in walk(tree["body"]):
            for c in _children(n):
                parents[id(c)] = n
        read_ids = {id(r[0]) for r in reads}
        # length tests / slice patterns per sequence key
        len_lines = {}
        for n in walk(tree["body"]):
            if n["k"] == "MethodCall" and n["method"] in ("len", "is_empty") and not n["args"]:
                k = _seq_key(n["recv"])
                if k is not None:
                    len_lines.setdefault(k, []).append(n["line"])
            if n["k"] == "Match":
                k = _seq_key(n["scrut"])
                if k is not None and any(p["k"] == "P.Slice" for a in n["arms"] for p in walk(a["pat"])):
                    len_lines.setdefault(k, []).append(n["line"])
            if n["k"] == "Let" and n.get("init") is not None:
                k = _seq_key(n["init"])
                if k is not None and any(p["k"] == "P.Slice" for p in walk(n["pat"])):
                    len_lines.setdefault(k, []).append(n["line"])

        def uses_seq(region, key):
            for x in walk(region):
                if id(x) in read_ids:
                    continue
                if x["k"] in ("Path", "Field") and _seq_key(x) == key:
                    par = parents.get(id(x))
                    # part of a longer field chain of the same expression: judged at the outermost node
                    if par is not None and par["k"] == "Field" and par.get("e") is x:
                        continue
                    # directly the receiver / base of one of the prefix reads
                    cur, skip = x, False
                    while id(cur) in parents:
                        p2 = parents[id(cur)]
                        if id(p2) in read_ids and (p2.get("recv") is cur or p2.get("e") is cur):
                            skip = True
                            break
                        if p2["k"] in ("AddrOf", "Unary", "DropTemps") or (p2["k"] == "MethodCall" and p2["method"] in VIEW_METHODS and p2.get("recv") is cur):
                            cur = p2
                            continue
                        break
                    if not skip:
                        return True
            return False
        for node, key, seq in reads:
            n_reads += 1
            ok = any(l <= node["line"] for l in len_lines.get(key, ()))
            why = "length test" if ok else None
            if not ok:
                # find the consuming region
                cur = node
                regions = None
                while id(cur) in parents and regions is None:
                    par = parents[id(cur)]
                    if par["k"] == "Match" and par.get("scrut") is cur:
                        regions = [a["body"] for a in par["arms"] if any(p["k"] == "P.Binding" for p in walk(a["pat"]))]
                        if any(a.get("guard") is not None and uses_seq(a["guard"], key) for a in par["arms"]):
                            regions = []
                    elif par["k"] == "Let" and par.get("init") is cur:
                        gp = parents.get(id(par))
                        while gp is not None and gp["k"] != "If":
                            gp = parents.get(id(gp))
                        regions = [gp["then"]] if gp is not None else None
                    elif par["k"] == "LetStmt" and par.get("init") is cur:
                        blk = parents.get(id(par))
                        if blk is not None and blk["k"] == "Block":
                            after, seen_ = [], False
                            for st in blk["stmts"]:
                                if st is par:
                                    seen_ = True
                                elif seen_:
                                    after.append(st)
                            if blk.get("expr") is not None:
                                after.append(blk["expr"])
                            regions = after
                    elif par["k"] in ("Arm", "Block", "Closure") and regions is None and par["k"] != "Block":
                        regions = [par.get("body") or par]
                    cur = par
                if regions is None:
                    regions = [tree["body"]]
                ok = all(uses_seq(r, key) for r in regions) if regions else True
                why = "rest of the sequence used in the consuming region" if ok else None
            short = g.rsplit("::", 1)[-1]
            what = (node.get("method") or "[%s]" % node["i"]["v"])
            kid = "%s/%s.%s" % (short, ".".join(key[1]) or "local", what)
            if collect:
                if not ok:
                    hits.append(g)
                continue
            rep.ob(rid, kid, ok,
                   "%s reads only `%s` of a sequence (%s) and builds its result from that element: no length test precedes the read and the rest of the sequence is not used where the element is consumed, so every longer sequence is truncated (a template literal `a${string}` becomes the constant `a`)" % (
                       g, what, seq.get("ty")), "%s:%s" % (f.file, node["line"]), sample={"fn": g, "read": what, "sequence_type": seq.get("ty"), "justified_by": why})
    return hits if collect else n_reads



def enum_enumerator_rule(F, rep, rid, select):
    """`TypedArrayKind::all()`, `SubTypeTag::all()` (or the constants behind them): the tag walk of the materialiser and the emptiness test iterate
    these lists instead of the enum.  A list that misses a variant (or names one twice, which silently collapses in a
    set) makes every type that carries the WHOLE tag lose the values of the missing kind on its way to code
    generation.  Decided for every parameterless function whose result is a list of values of one fieldless enum, and every
    constant that is such a list, written as a literal: the listed variants are exactly the enum's variants, each once."""
    n = 0
    for g in sorted(F.hir):
        f = F.fns.get(g)
        if f is None or not select(f) or (f.inputs or []) or "Closure" in str(f.kind) or "AnonConst" in str(f.kind):
            continue
        is_const = "Const" in str(f.kind) or "Static" in str(f.kind)
        for node in walk(F.hir[g]["body"]):
            if node["k"] != "Array":
                continue
            els = list(_children(node))
            if len(els) < 3 or not all(e["k"] == "Path" and e.get("res") in ("ctor", "def") and e.get("def") for e in els):
                continue
            enums = {e["def"].rsplit("::", 1)[0] for e in els}
            if len(enums) != 1:
                continue
            en = enums.pop()
            adt = F.adts.get(en)
            # (the list may live in the enumerating function or in a constant it hands out)
            if adt is None or adt.get("kind") != "Enum" or any(v["fields"] for v in adt["variants"]) or (not is_const and en.rsplit("::", 1)[-1] not in (f.output or "")):
                continue
            n += 1
            listed = [e["def"].rsplit("::", 1)[-1] for e in els]
            want = [v["name"] for v in adt["variants"]]
            missing = sorted(set(want) - set(listed))
            dup = sorted({x for x in listed if listed.count(x) > 1})
            rep.ob(rid, "%s/complete" % strip_generics_(g), not missing and not dup,
                   "%s lists the values of %s but %s: a type that carries the whole tag is materialised / tested without the missing kind, so the validator handed to code generation rejects values the computed type contains" % (
                       g, en, "; ".join(filter(None, ["misses %s" % missing if missing else "", "names %s twice" % dup if dup else ""]))),
                   "%s:%s" % (f.file, node["line"]), sample={"fn": g, "enum": en, "variants": len(want), "listed": len(listed)})
    return n


def strip_generics_(s_):
    return re.sub(r"::<[^>]*>", "", s_)


def declared_lookup_rule(cx, rep, rid):
    """An object type is `declared properties + (maybe) an index signature`.  Code that takes an object apart and
    LOOKS A KEY UP in the declared properties answers for the object only if it knows what a miss means: with an
    index signature a key that is not declared still has a type (the signature's value type).  The syntactic shortcut
    of `T[K]` restricts itself to objects whose pattern says `indexed_properties: None`; extended to all objects it
    drops the undeclared keys of a union index (`Record<string, number>["a" | "b"]` becomes `never`).  Decided for
    every function of the frontend / IR that destructures `RuntypeKind::Object` WITHOUT requiring
    `indexed_properties: None` and looks keys up in `vs`: the index signature is consulted on a condition that
    dominates the lookup (`if !indexed_properties.is_none() { break }` before it, an enclosing test), or in the code
    that handles the miss (the else-branch of the hit test and what follows it)."""
    F = cx.rs
    LOOKUPS = {"get", "contains_key", "get_mut", "remove", "get_key_value"}
    n_sites = 0
    n_restricted = 0
    for g, t in sorted(F.hir.items()):
        f = F.fns.get(g)
        if f is None or f.crate == WASM or g.startswith("<") or not re.search(r"/src/(frontend|ast)/", f.file or ""):
            continue
        pats = [p for p in walk(t["body"]) if p["k"] == "P.Struct" and (p.get("def") or "").endswith("RuntypeKind::Object")]
        if not pats:
            continue
        parent = {}
        for x in walk(t["body"]):
            for c in _children(x):
                parent[id(c)] = x

        def up(n):
            out = []
            while id(n) in parent:
                n2 = parent[id(n)]
                out.append((n, n2))
                n = n2
            return out

        def mentions(e, lid):
            return e is not None and any(x["k"] == "Path" and x.get("lid") == lid for x in walk(e))

        def diverges(e):
            return e is not None and any(x["k"] in ("Ret", "Break", "Continue") for x in walk(e))

        def stmt_expr(st):
            return st.get("e") if st["k"] in ("ExprStmt", "Semi") else st
        for p in pats:
            fl = {x.get("name"): x["pat"] for x in p.get("fields", [])}
            vs, ip = fl.get("vs"), fl.get("indexed_properties")
            if vs is None or vs["k"] != "P.Binding":
                continue
            if ip is not None and ip["k"] == "P.Expr" and (ip.get("def") or "").endswith("::None"):
                # decided by the pattern itself: the lookups in these declared properties only ever see objects
                # without an index signature.  They still show that the matcher sees the take-apart-and-look-up
                # sites (floor): b101 moves the guard `if !indexed_properties.is_none() { break }` of all_of into
                # the let-else pattern `Object { vs, indexed_properties: None }` of a helper, which leaves no
                # unrestricted site in the tree
                n_restricted += sum(1 for x in walk(t["body"]) if x["k"] == "MethodCall" and x["method"] in LOOKUPS
                                    and any(y["k"] == "Path" and y.get("lid") == vs["lid"] for y in walk(x["recv"])))
                continue
            V = vs["lid"]
            I = ip["lid"] if ip is not None and ip["k"] == "P.Binding" else None
            # scope of the bindings: the arm body / the then-branch of the `if let`
            scope = None
            for child, par in up(p):
                if par["k"] == "Arm":
                    scope = par["body"]
                    break
                if par["k"] == "Let" and id(par) in parent and parent[id(par)]["k"] == "If":
                    scope = parent[id(par)]["then"]
                    break
                if par["k"] == "LetStmt" and par.get("els") is not None or (par["k"] == "LetStmt" and id(par) in parent and parent[id(par)]["k"] == "Block" and par["pat"] is child):
                    scope = parent[id(par)]          # `let PATTERN = .. else { .. };` - the rest of the block
                    break
            if scope is None:
                continue
            lookups = []

            def is_v(e):
                while e["k"] in ("AddrOf", "Unary"):
                    e = e["e"]
                return e["k"] == "Path" and e.get("lid") == V
            for x in walk(scope):
                if x["k"] == "MethodCall" and x["method"] in LOOKUPS and is_v(x["recv"]):
                    lookups.append(x)
                elif x["k"] in ("Call", "MethodCall"):
                    # the declared properties handed to a private helper that looks a key up in them
                    args = ([x["recv"]] + x["args"]) if x["k"] == "MethodCall" else x["args"]
                    pos = [i_ for i_, a_ in enumerate(args) if is_v(a_)]
                    tg = F._callee_gid(f.crate, (x.get("resolved") or x.get("callee") or ""))
                    if pos and tg in F.hir and tg != g:
                        ps_ = F.hir[tg].get("params", [])
                        for i_ in pos:
                            if i_ < len(ps_) and isinstance(ps_[i_], dict):
                                pl = {b_.get("lid") for b_ in walk(ps_[i_]) if b_["k"] == "P.Binding"}
                                for y in walk(F.hir[tg]["body"]):
                                    if y["k"] == "MethodCall" and y["method"] in LOOKUPS:
                                        r_ = y["recv"]
                                        while r_["k"] in ("AddrOf", "Unary"):
                                            r_ = r_["e"]
                                        if r_["k"] == "Path" and r_.get("lid") in pl:
                                            lookups.append(x)
                                            break
            for i, L in enumerate(lookups):
                n_sites += 1
                ok = False
                if I is not None:
                    chain = up(L)
                    for child, par in chain:
                        if par is scope or child is scope:
                            pass
                        if par["k"] == "If" and child is not par.get("cond") and mentions(par.get("cond"), I):
                            ok = True
                        # `sig.is_some() || lookup(..)` / `sig.is_none() && lookup(..)`: the left operand is evaluated first
                        if par["k"] == "Binary" and par.get("op") in ("Or", "And") and child is par.get("r") and mentions(par.get("l"), I):
                            ok = True
                        if par["k"] == "Match" and par.get("src") == "Normal" and child["k"] == "Arm" and mentions(par.get("scrut"), I):
                            ok = True
                        if par["k"] == "Block":
                            sts = par.get("stmts", [])
                            idx = next((j for j, s_ in enumerate(sts) if s_ is child), len(sts))
                            for s_ in sts[:idx]:
                                e_ = stmt_expr(s_)
                                if e_ is not None and e_["k"] == "If" and mentions(e_.get("cond"), I) and diverges(e_.get("then")):
                                    ok = True
                                if e_ is not None and e_["k"] == "Match" and mentions(e_.get("scrut"), I) and any(diverges(a["body"]) for a in e_["arms"]):
                                    ok = True
                        if child is scope:
                            break
                    if not ok:
                        # the code that handles the miss
                        holder, site = None, L
                        for child, par in chain:
                            if par["k"] == "LetStmt" and par.get("init") is not None and par["pat"]["k"] == "P.Binding":
                                holder, site = par["pat"]["lid"], par
                                break
                            if par["k"] in ("If", "Block", "Arm"):
                                break
                        region = []
                        # statements after `site` (or after the If that tests the lookup directly) in its block
                        anchor_stmt = site
                        for child, par in up(site):
                            if par["k"] == "Block":
                                sts = par.get("stmts", [])
                                idx = next((j for j, s_ in enumerate(sts) if s_ is child), None)
                                if idx is not None:
                                    rest = sts[idx + 1:] + ([par["expr"]] if par.get("expr") is not None else [])
                                    hit_if = None
                                    for s_ in ([child] if holder is None else rest):
                                        e_ = stmt_expr(s_)
                                        if e_ is not None and e_["k"] == "If" and (holder is None or mentions(e_.get("cond"), holder)):
                                            hit_if = (s_, e_)
                                            break
                                    if hit_if is not None:
                                        if hit_if[1].get("else") is not None:
                                            region.append(hit_if[1]["else"])
                                        j = next((k for k, s_ in enumerate(rest) if s_ is hit_if[0]), -1)
                                        region += rest[j + 1:] if holder is not None else rest
                                    else:
                                        region += rest
                                break
                        ok = any(mentions(r_, I) for r_ in region)
                rep.ob(rid, "%s/lookup#%d" % (g.rsplit("::", 1)[-1], i), ok,
                       "%s takes an object type apart without requiring `indexed_properties: None` and looks a key up in its declared properties (%s) without consulting the index signature where the key is missing: for an object with an index signature an undeclared key is answered as if the object had no such key (`Record<string, number>[\"a\" | \"b\"]` loses members)" % (g, "line %s" % L.get("line")),
                       "%s:%s" % (f.file, L.get("line")), sample={"fn": g, "index_signature_binding": "bound" if I else "ignored"})
    rep.floor(rid, "key lookups in the declared properties of objects that may have an index signature", n_sites + n_restricted, 1)


# ---------------------------------------------------------------------------------------------------- C07.11
def keyof_duality_rule(cx, rep, rid):
    """keyof is contravariant: keyof (A | B) = keyof A & keyof B and keyof (A & B) = keyof A | keyof B.  The semantic
    keyof walks the disjunctive normal form of the object part: across the CLAUSES of the DNF (a union) the key sets
    are intersected, across the POSITIVE ATOMS of one clause (an intersection) they are united.  Decided on the typed
    HIR of the engine: in the function that reads the property names of object atoms (`.vs.keys()` of the atom
    table's entries) under a walk of `bdd_to_dnf(..)`, the region that iterates the `.positive` atoms of a clause
    (for-loop or iterator chain, local closures and helpers followed) combines with `union` and never with
    `intersect`; the region that iterates the clauses combines - outside the atom region - with `intersect`."""
    F = cx.rs
    from facts import walk as hwalk, children
    rep.rule(rid, "semantic keyof: key sets are united across the positive atoms of a clause and intersected across clauses")
    def closures_of(tree):
        out = {}
        for n in hwalk(tree["body"]):
            if n["k"] == "LetStmt" and n["pat"]["k"] == "P.Binding" and isinstance(n.get("init"), dict) and n["init"].get("k") == "Closure":
                out[n["pat"].get("lid")] = n["init"]
        return out
    def ops_reached(crate, tree, node, depth=3, seen=None, skip=()):
        """SemTypeOps combinators (union / intersect / diff) evaluated from `node`, following local closures and
        local helper functions; subtrees in `skip` are not entered"""
        seen = seen if seen is not None else set()
        cl = closures_of(tree)
        out = set()
        stack = [node]
        while stack:
            n = stack.pop()
            if any(n is x for x in skip):
                continue
            if n["k"] == "MethodCall" and "SemTypeOps::" in (n.get("callee") or "") and n.get("method") in ("union", "intersect", "diff"):
                out.add(n["method"])
            if n["k"] == "Call":
                fpath = n.get("f") or {}
                if fpath.get("k") == "Path" and fpath.get("res") == "local" and fpath.get("lid") in cl and ("c", fpath["lid"]) not in seen:
                    seen.add(("c", fpath["lid"]))
                    out |= ops_reached(crate, tree, cl[fpath["lid"]]["body"], depth, seen)
            if n["k"] in ("Call", "MethodCall") and depth > 0:
                cal = n.get("callee") if n["k"] == "Call" else (n.get("resolved") or n.get("callee"))
                tg = F._callee_gid(crate, cal or "")
                if tg in F.hir and tg not in seen and (F.fns.get(tg) is not None and (F.fns[tg].file or "").startswith("packages/beff-core/src/subtyping")) \
                        and "SemTypeOps" not in tg and "BddOps" not in tg:
                    seen.add(tg)
                    out |= ops_reached(crate, F.hir[tg], F.hir[tg]["body"], depth - 1, seen)
            stack.extend(children(n))
        return out
    def iter_regions(tree, pred):
        """(region node, body node) for loops / iterator chains whose iterated expression satisfies pred"""
        for n in hwalk(tree["body"]):
            if n["k"] == "Match" and n.get("src") == "ForLoopDesugar" and n["scrut"].get("k") == "Call" and n["scrut"].get("args"):
                if any(pred(x) for x in hwalk(n["scrut"]["args"][0])):
                    yield n, n
            elif n["k"] == "MethodCall" and n.get("args") and any(a.get("k") == "Closure" for a in n["args"]) and \
                    (n.get("callee") or "").startswith("std::iter::Iterator::"):
                root = n["recv"]
                if any(pred(x) for x in hwalk(root)):
                    yield n, n
    n_found = 0
    for g, tree in sorted(F.hir.items()):
        f = F.fns.get(g)
        if f is None or f.kind == "Closure" or not (f.file or "").startswith("packages/beff-core/src/subtyping"):
            continue
        def is_pos(x):
            return x["k"] == "Field" and x.get("name") == "positive" and (x.get("adt") or "").endswith("Conjunction")
        atom_regions = [r for r, _b in iter_regions(tree, is_pos)]
        if not atom_regions:
            continue
        # this is the keyof walk only if the atom region reads the property NAMES of the atoms
        def reads_keys(node):
            for x, _o in _walk_inl_node(F, f.crate, node, 2):
                if x["k"] == "MethodCall" and x.get("method") == "keys" and any(y["k"] == "Field" and y.get("name") == "vs" and (y.get("adt") or "").endswith("MappingAtomicType") for y in hwalk(x["recv"])):
                    return True
            return False
        atom_regions = [r for r in atom_regions if reads_keys(r)]
        if not atom_regions:
            continue
        n_found += 1
        for r in atom_regions:
            ops = ops_reached(f.crate, tree, r)
            rep.ob(rid, "%s/atoms-united" % g.rsplit("::", 1)[-1], "intersect" not in ops and "union" in ops,
                   "%s combines the key sets of the positive atoms of ONE clause with %s: the atoms of a clause are intersected types, and keyof of an intersection is the UNION of the members' keys - `keyof (A & B)` would lose every key that only one of A, B declares" % (g, sorted(ops)),
                   "%s:%s" % (f.file, r.get("line")), sample={"fn": g, "combinators_in_atom_region": sorted(ops)})
        # clause regions: loops over the DNF that contain an atom region
        def is_dnf(x):
            return (x["k"] == "Call" and (x.get("callee") or "").endswith("bdd_to_dnf")) or (x["k"] == "Path" and x.get("res") == "local" and "dnf::Conjunction>" in (x.get("ty") or "") and "Vec<" in (x.get("ty") or ""))
        for r, _b in iter_regions(tree, is_dnf):
            inner = [a for a in atom_regions if any(x is a for x in hwalk(r))]
            if not inner:
                continue
            ops = ops_reached(f.crate, tree, r, skip=inner)
            rep.ob(rid, "%s/clauses-intersected" % g.rsplit("::", 1)[-1], "intersect" in ops and "union" not in ops,
                   "%s combines the key sets of the CLAUSES of the normal form with %s: the clauses are united types, and keyof of a union is the INTERSECTION of the members' keys" % (g, sorted(ops)),
                   "%s:%s" % (f.file, r.get("line")), sample={"fn": g, "combinators_in_clause_region": sorted(ops)})
    rep.floor(rid, "semantic keyof walks (atom regions that read property names)", n_found, 1)


def _walk_inl_node(F, crate, node, depth, seen=None):
    from facts import walk as hwalk
    seen = seen if seen is not None else set()
    for n in hwalk(node):
        yield n, None
        if depth > 0 and n["k"] in ("Call", "MethodCall"):
            cal = n.get("callee") if n["k"] == "Call" else (n.get("resolved") or n.get("callee"))
            tg = F._callee_gid(crate, cal or "")
            if tg in F.hir and tg not in seen:
                seen.add(tg)
                for x, o in _walk_inl_node(F, crate, F.hir[tg]["body"], depth - 1, seen):
                    yield x, (o or tg)


# ---------------------------------------------------------------------------------------------------- C07.13 = C11.8
def optional_part_rule(cx, rep, rid):
    """An atom of the semantic engine carries OPTIONAL parts (the index signature of an object atom, the rest element
    of a list atom).  The materialiser writes such a part out under `if let Some(p) = <part>` / `match <part>`.
    The part must be written whenever it is there: a predicate between the atom's field and that test (`filter`,
    `take_if`, `and_then`, `then`, an extra condition on the VALUE of the part) drops it for some values - an index
    signature `[k: string]: unknown` that disappears turns an open object into a closed one, which strict mode and
    the hoist keys can tell apart.  Decided for the functions of to_schema.rs that read an `Option`-typed field of an
    atom and build a Runtype from it: the scrutinee of the test, followed through let-bound locals, reaches the field
    through `&`, `as_ref`, `as_deref`, `clone`, `as_mut` only."""
    F = cx.rs
    from facts import walk as hwalk
    rep.rule(rid, "an optional part of an atom (index signature, rest element) is materialised whenever it is present")
    thin = ("filter", "take_if", "and_then", "filter_map", "xor", "then", "then_some", "zip", "take", "map_or", "is_some_and")
    n = 0
    for g, t in sorted(F.hir.items()):
        f = F.fns.get(g)
        if f is None or not (f.file or "").endswith("subtyping/to_schema.rs") or f.kind == "Closure":
            continue
        lets = {x["pat"].get("lid"): x["init"] for x in hwalk(t["body"]) if x["k"] == "LetStmt" and x["pat"]["k"] == "P.Binding" and x.get("init") is not None}
        def chain(e, depth=0):
            """(atom field name or None, [method names on the way])"""
            ms = []
            while isinstance(e, dict):
                k = e.get("k")
                if k in ("AddrOf", "Deref", "DropTemps", "Unary"):
                    e = e["e"]
                elif k == "MethodCall":
                    ms.append(e.get("method"))
                    e = e["recv"]
                elif k == "Path" and e.get("res") == "local" and e.get("lid") in lets and depth < 4:
                    fld, m2 = chain(lets[e["lid"]], depth + 1)
                    return fld, ms + m2
                elif k == "Field" and "Option<" in (e.get("ty") or "") and ((e.get("adt") or "").endswith("AtomicType") or (e.get("adt") or "").endswith("ListAtomic")):
                    return e["name"], ms
                else:
                    return None, ms
            return None, ms
        for x in hwalk(t["body"]):
            scrut = None
            if x["k"] == "If" and x["cond"].get("k") == "Let":
                scrut = x["cond"]["init"]
            elif x["k"] == "Match" and x.get("src") == "Normal" and (x.get("scrut_adt") or "").endswith("Option"):
                scrut = x["scrut"]
            if scrut is None:
                continue
            fld, ms = chain(scrut)
            if fld is None:
                continue
            n += 1
            bad = [m for m in ms if m in thin]
            rep.ob(rid, "%s/%s" % (g.rsplit("::", 1)[-1], fld), not bad,
                   "%s writes out the optional part `%s` of an atom only if it also passes `%s`: for the values the predicate rejects the part is silently left out of the materialised type (an index signature that disappears closes the object: strict mode then rejects keys the computed type admits)" % (g, fld, "`, `".join(bad)),
                   "%s:%s" % (f.file, x.get("line")), sample={"fn": g, "part": fld, "adaptors_on_the_way": ms})
    rep.floor(rid, "optional atom parts materialised in to_schema.rs", n, 1)
