"""C02 — emitted JSON Schema and validator agree on JSON documents.

C02.1  a class whose validate() admits only non-JSON values has a schema() that always throws
C02.2  keyword and type vocabulary of every schema object literal is JSON Schema 2020-12
C02.3  keyword co-occurrence: prefixItems needs minItems; `pattern` must be a regular expression source
C02.4  every emitted $ref is preceded by the ensure-definition sequence for the same name
"""
import re
import tsast
from tsast import walk, s, unparen, method_call
from rules import ts_common

from facts import mentions_str_lit, is_str_lit

LEVEL = "other"

VOCAB = {
    "type", "properties", "required", "additionalProperties", "items", "prefixItems", "minItems", "maxItems", "anyOf", "oneOf", "allOf", "not",
    "const", "enum", "format", "pattern", "description", "$ref", "$defs", "definitions", "propertyNames", "patternProperties", "title",
    "default", "examples", "minimum", "maximum", "minLength", "maxLength", "uniqueItems", "nullable", "$schema", "$id", "discriminator",
    "if", "then", "else", "contains", "dependentRequired", "unevaluatedProperties", "unevaluatedItems", "multipleOf", "exclusiveMinimum", "exclusiveMaximum",
}
DISCRIMINATOR_KEYS = {"propertyName", "mapping"}
TYPES = {"null", "boolean", "object", "array", "number", "string", "integer"}
NON_JSON_CTORS = {"Date", "Map", "Set", "WeakMap", "RegExp", "ArrayBuffer"}


def only_non_json(validate_fn):
    """validate() accepts only values guarded by `instanceof <non-JSON ctor>` / `typeof x === "bigint"|"function"|"symbol"`"""
    guards = []
    for n in walk(validate_fn):
        if n["type"] == "BinaryExpression" and n["operator"] == "instanceof":
            guards.append(("instanceof", s(n["right"])))
        if n["type"] == "BinaryExpression" and n["operator"] in ("===", "==") and unparen(n["left"]).get("type") == "UnaryExpression" and unparen(n["left"])["operator"] == "typeof":
            r = unparen(n["right"])
            if r["type"] == "StringLiteral":
                guards.append(("typeof", r["value"]))
    if not guards:
        return None
    non_json = [g for g in guards if (g[0] == "instanceof" and (g[1] in NON_JSON_CTORS or g[1] in ("ctor",))) or (g[0] == "typeof" and g[1] in ("bigint", "function", "symbol"))]
    json_ok = [g for g in guards if g not in non_json]
    if non_json and not json_ok:
        return non_json
    return None


def always_throws(fn):
    body = fn.get("body")
    if body is None:
        return False
    rets = [n for n in tsast.walk_no_nested_fn(body) if n["type"] == "ReturnStatement"]
    throws = [n for n in tsast.walk_no_nested_fn(body) if n["type"] == "ThrowStatement"]
    return bool(throws) and not rets and body["stmts"] and body["stmts"][-1]["type"] == "ThrowStatement"


def schema_object_literals(fn):
    """object literals that are (part of) a returned schema: arguments of annotateSchema, returned literals, nested values"""
    out = []
    for n in walk(fn):
        if n["type"] == "ObjectExpression":
            out.append(n)
    return out


def name_keyed_dict_rule(fam, mod, rep, rid):
    """Type names are user-chosen identifiers: `toString`, `constructor`, `hasOwnProperty` are legal type names.  A
    plain object literal used as a dictionary answers those names from Object.prototype (`d[name]` is a function,
    `name in d` is true), so 'is this reference being printed', 'is this definition collected', 'how often is it
    referenced' get the wrong answer for such a type: schema() prints {}, schemaWithContext leaves a dangling $ref.
    Decided: every dictionary that is indexed (`d[k]`, `k in d`) with a key that is a type name - this.refName in the
    reference classes, the `name` parameter of the printing context - is created without a prototype
    (`Object.create(null)`, directly or through a helper), at every place where it is created."""
    def null_proto(e, depth=0):
        e = unparen(e)
        if e.get("type") == "CallExpression":
            if s(e["callee"]) == "Object.create" and e["arguments"] and s(e["arguments"][0]["expression"]) == "null":
                return True
            cal = unparen(e["callee"])
            if cal.get("type") == "Identifier" and depth < 2:
                tgt = mod.functions.get(cal["value"]) or (mod.vars.get(cal["value"]) or (None, None, None))[1]
                if tgt is not None and tgt.get("type") in ("ArrowFunctionExpression", "FunctionExpression", "FunctionDeclaration"):
                    b = tgt.get("body")
                    if b is not None and b.get("type") != "BlockStatement":
                        return null_proto(b, depth + 1)
                    rets = [r for r in walk(b) if r["type"] == "ReturnStatement"] if b else []
                    if len(rets) == 1 and rets[0].get("argument") is not None:
                        ra = unparen(rets[0]["argument"])
                        if ra.get("type") == "Identifier":
                            inits = [d_["init"] for d_ in walk(b) if d_["type"] == "VariableDeclarator" and d_["id"].get("value") == ra["value"] and d_.get("init") is not None]
                            reassigned = any(a_["type"] == "AssignmentExpression" and s(a_["left"]) == ra["value"] for a_ in walk(b))
                            return len(inits) == 1 and not reassigned and null_proto(inits[0], depth + 1)
                        return null_proto(ra, depth + 1)
                    return False
        if e.get("type") == "NewExpression" and s(e["callee"]) in ("Map", "Set"):
            return True
        return False
    # 1. dictionaries indexed by a type name
    dicts = {}   # rendering of the dictionary expression -> first site
    for cname, c in sorted(mod.classes.items()):
        is_ref = cname in fam.classes and ("refName" in fam.all_fields(cname))
        # (a context class, not a validator: in the runtime classes a string parameter is a property name of the INPUT)
        is_ctxcls = cname not in fam.classes and any(tsast.type_str((fld.get("typeAnnotation") or {}).get("typeAnnotation")).startswith("Record<string,") for fld in c.fields.values())
        for mname, m in c.methods.items():
            fn = m["function"]
            if fn.get("body") is None:
                continue
            al = ts_common.local_aliases(fn)
            ps = ts_common.fn_params(fn)

            def is_name(e):
                e = unparen(e)
                if is_ref and ts_common.expr_mentions_this_field(e, {"refName"}, al):
                    return True
                # the printing context's methods take the type name as a string parameter
                if e.get("type") == "Identifier" and e["value"] in ps and not is_ref and is_ctxcls:
                    for p_ in fn["params"]:
                        pat = p_.get("pat", p_)
                        if pat.get("value") == e["value"] and tsast.type_str((pat.get("typeAnnotation") or {}).get("typeAnnotation")) == "string":
                            return True
                return False
            for n in walk(fn):
                d = None
                if n["type"] == "MemberExpression" and n["property"]["type"] == "Computed" and is_name(n["property"]["expression"]):
                    d = n["object"]
                elif n["type"] == "BinaryExpression" and n["operator"] == "in" and is_name(n["left"]):
                    d = n["right"]
                if d is None:
                    continue
                d = unparen(d)
                if d.get("type") == "CallExpression":
                    continue     # a table handed over by generated code (own properties for every defined name)
                # the dictionary may be reached through a local of the method (b103: `const { collectedDefinitions } =
                # this; return name in collectedDefinitions;`, likewise `const d = this.collectedDefinitions`): it is
                # the field the local was taken from - a local bound once and never assigned
                if d.get("type") == "Identifier" and d["value"] not in ps:
                    ln = d["value"]
                    binds = [v_ for v_ in walk(fn) if v_["type"] == "VariableDeclarator" and any(b_["type"] == "Identifier" and b_["value"] == ln for b_ in walk(v_["id"]))]
                    assigned = any(a_["type"] == "AssignmentExpression" and s(a_["left"]) == ln for a_ in walk(fn))
                    if len(binds) == 1 and not assigned and binds[0].get("init") is not None:
                        v_, vi = binds[0], unparen(binds[0]["init"])
                        if v_["id"].get("type") == "Identifier" and vi.get("type") == "MemberExpression" and vi["object"]["type"] == "ThisExpression" and vi["property"]["type"] == "Identifier":
                            d = vi
                        elif v_["id"].get("type") == "ObjectPattern" and vi.get("type") == "ThisExpression":
                            for pp in v_["id"]["properties"]:
                                k_ = pp.get("key") or {}
                                if k_.get("type") != "Identifier":
                                    continue
                                if (pp["type"] == "AssignmentPatternProperty" and k_["value"] == ln and pp.get("value") is None) or \
                                        (pp["type"] == "KeyValuePatternProperty" and unparen(pp["value"]).get("type") == "Identifier" and unparen(pp["value"])["value"] == ln):
                                    d = {"type": "MemberExpression", "span": vi.get("span"), "object": vi, "property": k_}
                dicts.setdefault(s(d), mod.loc(n))
    # 2. every creation site of those dictionaries
    n_sites = 0
    for dtxt, first in sorted(dicts.items()):
        prop = dtxt.rsplit(".", 1)[-1]
        created = []
        if dtxt.startswith("this."):
            for cname, c in mod.classes.items():
                if prop in c.ctor_assignments():
                    created.append((c.ctor_assignments()[prop], "%s constructor" % cname))
                fld = c.fields.get(prop)
                if fld is not None and fld.get("value") is not None:
                    created.append((fld["value"], "%s field initialiser" % cname))
        else:
            for o in walk(mod.module):
                if o["type"] == "ObjectExpression":
                    for p_ in o["properties"]:
                        if p_["type"] == "KeyValueProperty" and tsast.prop_key(p_["key"]) == prop:
                            created.append((p_["value"], "object literal at %s" % mod.loc(o)))
        rep.ob(rid, "dict/%s/created-somewhere" % dtxt, bool(created), "%s is indexed with a type name (%s) but no place where it is created was found" % (dtxt, first), first)
        for e, where in created:
            n_sites += 1
            rep.ob(rid, "dict/%s" % dtxt, null_proto(e),
                   "%s is indexed with a type name (%s) and created as `%s` (%s): for a type called `toString` / `constructor` the lookup answers from Object.prototype" % (dtxt, first, s(e)[:40], where),
                   mod.loc(e), sample={"dictionary": dtxt, "created_as": s(e)[:40]})
    rep.floor(rid, "creation sites of name-keyed dictionaries", n_sites, 6)


def merge_required_rule(mod, rep, rid):
    """A function that folds several object schemas into one (the allOf merge) must carry over the whole `required`
    list of every member: the validator of an intersection demands every member's required keys.  Located by role: a
    top-level function that loops over an array parameter and returns an object literal with a `required` entry built
    from an accumulator.  Accepted idioms for 'all of member.required goes into the accumulator', as a statement
    directly in the member loop's body: `for (const k of m.required ?? []) acc.add(k)` (no condition inside),
    `(m.required ?? []).forEach(k => acc.add(k))`, `acc = new Set([...acc, ...m.required])`, `acc.push(...m.required)`."""
    n = 0
    for fname, d in sorted(mod.functions.items()):
        if d.get("body") is None:
            continue
        # (local helpers folded back in: the result literal may be built by a `closedObjectSchema(props, required)`)
        d = tsast.flatten_fn(mod, None, d)
        body = d.get("body")
        ps = ts_common.fn_params(d)
        # accumulator: identifier rendered inside the value of a `required:` property of a returned object
        accs = set()
        for o in walk(body):
            # `required: <expr>` in an object literal, or `<obj>.required = <expr>`
            val = None
            if o["type"] == "KeyValueProperty" and tsast.prop_key(o["key"]) == "required":
                val = o["value"]
            elif o["type"] == "AssignmentExpression" and unparen(o["left"]).get("type") == "MemberExpression" and s(o["left"]).endswith(".required"):
                val = o["right"]
            if val is not None:
                for i in walk(val):
                    if i["type"] == "Identifier":
                        accs.add(i["value"])
        accs -= set(ps)
        if not accs:
            continue
        loops = [l for l in body["stmts"] if l["type"] == "ForOfStatement" and s(l["right"]) in ps]
        if not loops:
            continue
        for loop in loops:
            mvar = loop["left"]["declarations"][0]["id"].get("value") if loop["left"]["type"] == "VariableDeclaration" else None
            if mvar is None or loop["body"]["type"] != "BlockStatement":
                continue
            n += 1
            full = False
            for st in loop["body"]["stmts"]:
                if st["type"] == "ForOfStatement" and (mvar + ".required") in s(st["right"]):
                    kv = st["left"]["declarations"][0]["id"].get("value") if st["left"]["type"] == "VariableDeclaration" else None
                    stmts = st["body"]["stmts"] if st["body"]["type"] == "BlockStatement" else [st["body"]]
                    if len(stmts) == 1 and stmts[0]["type"] == "ExpressionStatement":
                        mc = method_call(stmts[0]["expression"])
                        if mc and mc[1] in ("add", "push") and s(mc[0]) in accs and [s(a) for a in mc[2]] == [kv]:
                            full = True
                elif st["type"] == "ExpressionStatement":
                    e = unparen(st["expression"])
                    mc = method_call(e)
                    if mc and mc[1] == "forEach" and (mvar + ".required") in s(mc[0]) and mc[2] and mc[2][0]["type"] in ("ArrowFunctionExpression", "FunctionExpression"):
                        cb = mc[2][0]
                        inner = [method_call(x) for x in walk(cb) if x["type"] == "CallExpression"]
                        conds = [x for x in walk(cb) if x["type"] in ("IfStatement", "ConditionalExpression")]
                        if not conds and any(i and i[1] in ("add", "push") and s(i[0]) in accs for i in inner):
                            full = True
                    elif mc and mc[1] == "push" and s(mc[0]) in accs and any((mvar + ".required") in s(a) for a in mc[2]):
                        full = True
                    elif e["type"] == "AssignmentExpression" and s(e["left"]) in accs and (mvar + ".required") in s(e["right"]) and s(e["left"]) in s(e["right"]):
                        full = True
            rep.ob(rid, "%s/required-of-every-member" % fname, full,
                   "%s merges object schemas but does not add the whole `required` list of each member to the merged `required`: a key that a later member requires can be missing, so documents the intersection's validator rejects are valid against the schema" % fname,
                   mod.loc(loop), sample={"fn": fname, "member_loop_var": mvar, "accumulators": sorted(accs)})
    rep.floor(rid, "schema-merging loops", n, 1)


def run(cx, rep):
    fam = ts_common.Family(cx)
    mod = fam.mod
    rep.explanation = (
        "Rules over the swc AST of the schema printers: classes whose validator only admits non-JSON values must have a "
        "schema() whose every path throws; every key of every object literal built inside schema()/schema helpers must be "
        "a JSON Schema 2020-12 keyword (plus OpenAPI's discriminator) and every literal `type` one of the seven type names; "
        "`prefixItems` must come with `minItems`, `pattern` must derive from a RegExp source; every `getRef(n)` must be "
        "preceded in its method by the ensure-definition sequence for the same n. Decides well-formedness/ensuredness "
        "conditions; agreement on documents (required vs optional, allOf merge, index signatures) is not decided.")
    rep.trusted = ["swc AST", "the Draft 2020-12 keyword list in rules/c02.py"]
    # ---------------------------------------------------------------- C02.1
    rep.rule("C02.1", "types JSON Schema cannot express make schema() throw")
    n_nonjson = 0
    for cname, c in sorted(fam.concrete().items()):
        _, v = fam.resolve_method(cname, "validate")
        _, sc = fam.resolve_method(cname, "schema")
        if not v or not sc or v["function"].get("body") is None:
            continue
        g = only_non_json(v["function"])
        if g:
            n_nonjson += 1
            rep.ob("C02.1", cname, always_throws(sc["function"]),
                   "%s.validate only admits %s, which no JSON document is, but %s.schema() can return a schema" % (cname, g, cname), mod.loc(sc),
                   sample={"class": cname, "guards": g, "schema_always_throws": always_throws(sc["function"])})
    rep.floor("C02.1", "non-JSON classes", n_nonjson, 5)
    # ---------------------------------------------------------------- C02.2
    rep.rule("C02.2", "keyword and type vocabulary")
    fns = []
    for cname, c in sorted(fam.classes.items()):
        for mname, m in c.methods.items():
            if m["function"].get("body") is not None and (mname == "schema" or mname.lower().endswith("schemavariantrefs")):
                fns.append(("%s.%s" % (cname, mname), m["function"]))
    for fname in ("tryMergeAllOfObjectSchemas",):
        if fname in mod.functions:
            fns.append((fname, mod.functions[fname]))
    pp = cx.ts("packages/beff-client/src/openapi-pp.ts")
    for vn, (kind, init, decl) in pp.vars.items():
        if init is not None and init["type"] in ("ArrowFunctionExpression", "FunctionExpression"):
            fns.append(("openapi-pp." + vn, init))
    n_keys = 0
    for fname, fn in fns:
        for obj in schema_object_literals(fn):
            keys = [tsast.prop_key(p["key"]) for p in obj["properties"] if p["type"] == "KeyValueProperty"] + \
                   [p["value"] for p in obj["properties"] if p["type"] == "Identifier"]
            if not keys:
                continue
            # only literals that look like schemas: at least one vocabulary key, or nested under one
            if not (set(keys) & VOCAB) and not (set(keys) <= DISCRIMINATOR_KEYS | {"key", "ref"}):
                continue
            for k in keys:
                if k.startswith("["):
                    continue
                n_keys += 1
                ok = k in VOCAB or k in DISCRIMINATOR_KEYS or k in ("key", "ref")
                rep.ob("C02.2", "%s/key/%s" % (fname, k), ok, "%s builds a schema object with key `%s`, which is not a JSON Schema 2020-12 keyword" % (fname, k), mod.loc(obj) if "codegen" in mod.rel else fname)
            for p in obj["properties"]:
                if p["type"] == "KeyValueProperty" and tsast.prop_key(p["key"]) == "type":
                    v = unparen(p["value"])
                    if v["type"] == "StringLiteral":
                        rep.ob("C02.2", "%s/type/%s" % (fname, v["value"]), v["value"] in TYPES,
                               "%s emits `type: %r`, which is not a JSON Schema type name" % (fname, v["value"]), mod.loc(p["value"]))
                    elif v["type"] == "MemberExpression" and s(v).startswith("this."):
                        # type taken from a field: its declared literal union must be within the type names
                        cls = fname.split(".")[0]
                        fld = s(v)[5:]
                        ann = fam.all_fields(cls).get(fld, (None, None))[1]
                        lits = None
                        if ann is not None:
                            lits = tsast.literal_union(ann)
                            if lits is None and ann.get("type") == "TsTypeReference":
                                al = mod.type_aliases.get(tsast.type_str(ann))
                                lits = tsast.literal_union(al["typeAnnotation"]) if al else None
                        rep.ob("C02.2", "%s/type/field:%s" % (fname, fld), lits is not None and set(lits) <= TYPES,
                               "%s emits `type: this.%s` whose declared domain %s is not within the JSON Schema type names" % (fname, fld, lits), mod.loc(p["value"]),
                               sample={"site": fname, "field": fld, "declared_domain": sorted(lits) if lits else None})
    rep.floor("C02.2", "schema keys checked", n_keys, 30)
    # ---------------------------------------------------------------- C02.3
    rep.rule("C02.3", "keyword co-occurrence")
    for fname, fn in fns:
        for obj in schema_object_literals(fn):
            keys = {tsast.prop_key(p["key"]) for p in obj["properties"] if p["type"] == "KeyValueProperty"} | \
                   {p["value"] for p in obj["properties"] if p["type"] == "Identifier"}
            if "prefixItems" in keys:
                rep.ob("C02.3", "%s/prefixItems-minItems" % fname, "minItems" in keys,
                       "%s emits `prefixItems` without `minItems`: the schema accepts arrays shorter than the tuple (e.g. []) that the validator rejects" % fname, mod.loc(obj))
            for p in obj["properties"]:
                if p["type"] == "KeyValueProperty" and tsast.prop_key(p["key"]) == "pattern":
                    txt = s(p["value"])
                    rep.ob("C02.3", "%s/pattern-is-regex" % fname, txt.endswith(".source") or unparen(p["value"])["type"] == "StringLiteral",
                           "%s emits `pattern: %s`: the value is the TypeScript template-literal text, not a regular expression" % (fname, txt), mod.loc(p["value"]))
            # Draft 2020-12: anyOf / allOf / oneOf / prefixItems are `schemaArray`s (minItems 1): an array that IS empty
            # (literal `[]`), or that is the image of a constructor field which may be empty while no other branch
            # handles the empty case, makes the document ill-formed
            for p in obj["properties"]:
                if p["type"] == "KeyValueProperty" and tsast.prop_key(p["key"]) in ("anyOf", "allOf", "oneOf", "prefixItems"):
                    kw = tsast.prop_key(p["key"])
                    v = unparen(p["value"])
                elif p["type"] == "Identifier" and p["value"] in ("anyOf", "allOf", "oneOf", "prefixItems"):
                    kw = p["value"]
                    v = p
                    p = {"value": p}
                else:
                    continue
                al_ = ts_common.local_aliases(fn)
                if v.get("type") == "Identifier" and v["value"] in al_:
                    v = unparen(al_[v["value"]])
                if v.get("type") == "ArrayExpression":
                    rep.ob("C02.3", "%s/%s-nonempty" % (fname, kw), len(v["elements"]) >= 1,
                           "%s emits `%s: []`: the Draft 2020-12 meta-schema requires at least one subschema (use `false` / `{not: {}}`)" % (fname, kw), mod.loc(p["value"]))
                elif kw == "prefixItems":
                    # image of the tuple's fixed items: empty for `[]` and for rest-only tuples unless the method tests the length
                    guarded = any(x["type"] in ("IfStatement", "ConditionalExpression") and ".length" in s(x["test"]) for x in walk(fn))
                    rep.ob("C02.3", "%s/%s-nonempty" % (fname, kw), guarded,
                           "%s emits `prefixItems: %s` without a test for the empty case: for the tuple type `[]` (and for `[...T[]]`) the document contains `prefixItems: []`, which the Draft 2020-12 meta-schema rejects" % (fname, s(v)[:40]), mod.loc(p["value"]))
            if "additionalProperties" in keys and "type" in keys:
                tv = [unparen(p["value"]) for p in obj["properties"] if p["type"] == "KeyValueProperty" and tsast.prop_key(p["key"]) == "type"]
                if tv and tv[0]["type"] == "StringLiteral":
                    rep.ob("C02.3", "%s/additionalProperties-on-object" % fname, tv[0]["value"] == "object", "additionalProperties on a non-object schema", mod.loc(obj))
    # ---------------------------------------------------------------- C02.5
    rep.rule("C02.5", "schemas of index signatures keep both the key and the value constraint")
    for cname, c in sorted(fam.classes.items()):
        ixf = ts_common.index_signature_field(fam, cname)
        if ixf is None or "schema" not in c.methods:
            continue
        fn = c.methods["schema"]["function"]
        al = ts_common.local_aliases(fn)
        def ix_list(v):
            """the `this.<index signatures>.map(..)` expression a local is initialised with - written in place or
            returned by a private helper"""
            v = unparen(v)
            if ("this.%s.map(" % ixf) in s(v).replace(" ", ""):
                return v
            if v.get("type") == "CallExpression":
                r_ = tsast.resolve_local_call(mod, cname, v)
                if r_ is not None:
                    for x_ in walk(r_[0]):
                        if x_["type"] == "CallExpression" and s(x_).replace(" ", "").startswith("this.%s.map(" % ixf):
                            return x_
            return None
        IS = [k for k, v in al.items() if ix_list(v) is not None]
        rep.ob("C02.5", "%s/index-schemas" % cname, len(IS) == 1, "%s.schema: could not find the per-index-signature schema list" % cname, mod.loc(fn))
        if len(IS) != 1:
            continue
        isn = IS[0]
        cb = [a for a in walk(ix_list(al[isn])) if a["type"] in ("ArrowFunctionExpression", "FunctionExpression")]
        okcb = False
        if cb:
            # the callback may build the object itself or delegate to a private helper: see through it
            cbnodes = list(tsast.walk_inl(mod, cname, cb[0]))
            objs = [o for o in cbnodes if o["type"] == "ObjectExpression"]
            cal = {n["id"]["value"]: n["init"] for n in cbnodes if n["type"] == "VariableDeclarator" and n["id"]["type"] == "Identifier" and n.get("init") is not None}
            for o in objs:
                kv = {tsast.prop_key(p["key"]): p["value"] for p in o["properties"] if p["type"] == "KeyValueProperty"}
                if "propertyNames" in kv and "additionalProperties" in kv:
                    def from_(e, who):
                        e = unparen(e)
                        if e["type"] == "Identifier" and e["value"] in cal:
                            e = unparen(cal[e["value"]])
                        mc = method_call(e)
                        return bool(mc) and mc[1] == "schema" and s(mc[0]) == who
                    okcb = from_(kv["propertyNames"], "key") and from_(kv["additionalProperties"], "value")
        rep.ob("C02.5", "%s/index-schema-shape" % cname, okcb, "each index signature must print {propertyNames: key.schema(ctx), additionalProperties: value.schema(ctx)}", mod.loc(fn))
        n_ret = 0
        for r in tsast.walk_no_nested_fn(fn["body"]):
            if r["type"] != "ReturnStatement" or r.get("argument") is None:
                continue
            # returns taken only when there is no index signature, or when the value type is never (no key can be present)
            skip = False
            for i in walk(fn):
                if i["type"] == "IfStatement" and any(x is r for x in walk(i["consequent"])):
                    t = s(i["test"])
                    if t in ("(%s.length===0)" % isn, "(%s.length==0)" % isn) or "instanceofNeverRuntype" in t.replace(" ", ""):
                        skip = True
            if skip:
                continue
            n_ret += 1
            uses = any(x["type"] == "Identifier" and x["value"] == isn for x in walk(r["argument"]))
            rep.ob("C02.5", "%s/return-keeps-index-schema" % cname, uses,
                   "%s.schema returns `%s` for a type with an index signature without using the index-signature schemas: the key constraint (propertyNames) is lost, so documents with keys the validator rejects are valid against the schema" % (cname, s(r["argument"])[:80]),
                   mod.loc(r), sample={"class": cname, "return": s(r["argument"])[:80]})
        rep.floor("C02.5", "index-signature returns of %s.schema" % cname, n_ret, 2)
    # ---------------------------------------------------------------- C02.10
    rep.rule("C02.10", "names built by a lossy sanitiser are told apart before they key a definition")
    # A function that strips characters (`x.replace(/[^..]+/g, ..)`) is many-to-one.  When its result becomes part of
    # a definition name (first writer wins in the printing context), two different keys of one union - "a-b", "a_b" -
    # share a definition and the second variant's $ref points at the first variant's schema.  Required: the method
    # that names the variants of one union keeps a per-union record of the sanitised parts (a Map / Set / dictionary
    # it reads and writes with the sanitised value) so that repeats get distinct names.
    sanitisers = set()
    for cn, c in mod.classes.items():
        for mn, mm in c.methods.items():
            fn_ = mm["function"]
            if fn_.get("body") is None:
                continue
            for n in walk(fn_):
                mc = method_call(n) if n["type"] == "CallExpression" else None
                if mc and mc[1] in ("replace", "replaceAll") and mc[2] and unparen(mc[2][0]).get("type") == "RegExpLiteral" and unparen(mc[2][0])["pattern"].startswith("[^"):
                    sanitisers.add((cn, mn))
    for fn_name, d in mod.functions.items():
        for n in walk(d):
            mc = method_call(n) if n["type"] == "CallExpression" else None
            if mc and mc[1] in ("replace", "replaceAll") and mc[2] and unparen(mc[2][0]).get("type") == "RegExpLiteral" and unparen(mc[2][0])["pattern"].startswith("[^"):
                sanitisers.add((None, fn_name))
    n_san = 0
    for cn, c in sorted(mod.classes.items()):
        for mn, mm in sorted(c.methods.items()):
            fn_ = mm["function"]
            if fn_.get("body") is None or (cn, mn) in sanitisers:
                continue
            # methods that iterate the keys of a dictionary field and (transitively) name things through a sanitiser
            iter_keys = [n for n in walk(fn_) if n["type"] == "CallExpression" and s(n["callee"]) in ("Object.entries", "Object.keys") and s(n["arguments"][0]["expression"]).startswith("this.")] if True else []
            if not iter_keys:
                continue
            reaches = False
            for x in tsast.walk_inl(mod, cn, fn_, depth=3):
                if x["type"] == "CallExpression":
                    cal = s(x["callee"])
                    if any(cal.endswith("." + sm) or cal == sm for (_c, sm) in sanitisers):
                        reaches = True
            if not reaches:
                continue
            n_san += 1
            # collision record: a local Map / Set / null-proto dict that is both read and written in this method
            recs = [d_["id"]["value"] for d_ in walk(fn_) if d_["type"] == "VariableDeclarator" and d_["id"].get("type") == "Identifier" and d_.get("init") is not None
                    and unparen(d_["init"]).get("type") == "NewExpression" and s(unparen(d_["init"])["callee"]) in ("Map", "Set")]
            used = []
            # the record may be read and written in a helper that is handed the record (b103: the loop body's counter
            # moved into `nextRepeatSuffix(partCounts, key)`): walk_inl shows the helper's body with the record's name
            # substituted for the parameter
            inl = list(tsast.walk_inl(mod, cn, fn_, depth=3))
            for r_ in recs:
                ops = {method_call(x)[1] for x in inl if x["type"] == "CallExpression" and method_call(x) and s(method_call(x)[0]) == r_}
                if ops & {"get", "has"} and ops & {"set", "add"}:
                    used.append(r_)
            rep.ob("C02.10", "%s.%s/collision-record" % (cn, mn), bool(used),
                   "%s.%s names one definition per key through a sanitiser that drops characters and keeps no record of the names already given in this union: keys that differ only in dropped characters (\"a-b\", \"a_b\") share one definition" % (cn, mn),
                   mod.loc(fn_), sample={"method": "%s.%s" % (cn, mn), "record": used})
    rep.floor("C02.10", "methods naming definitions through a lossy sanitiser", n_san, 1)
    # ---------------------------------------------------------------- C02.9
    rep.rule("C02.9", "computed text is never used as a String.replace replacement pattern")
    # `s.replace(x, r)` with a STRING r interprets `$$`, `$&`, `$1`..; `$` is legal in TypeScript identifiers, so a
    # type name used as r changes ($$ -> $) and the $ref no longer matches the key its definition is stored under.
    n_rep = 0
    for label, fn in [(k, v) for k, v in mod.functions.items()] + [("%s.%s" % (cn, mn), mm["function"]) for cn, c in mod.classes.items() for mn, mm in c.methods.items()]:
        if fn.get("body") is None:
            continue
        for n in walk(fn):
            mc = method_call(n) if n["type"] == "CallExpression" else None
            if not mc or mc[1] not in ("replace", "replaceAll") or len(mc[2]) != 2:
                continue
            r = r_shown = unparen(mc[2][1])
            n_rep += 1
            # a replacement handed over BY NAME is judged by what the name is bound to (b103: `const replacer = () =>
            # name; .. .replace(PLACEHOLDER, replacer)`): a `const` of this function or of the module, declared once
            # and never assigned, or a function declaration; anything else stays a computed value
            if r.get("type") == "Identifier":
                rn = r["value"]
                binds = [d_ for vd in walk(fn) if vd["type"] == "VariableDeclaration" for d_ in vd["declarations"]
                         if any(b_["type"] == "Identifier" and b_["value"] == rn for b_ in walk(d_["id"]))]
                shadow = rn in ts_common.fn_params(fn) or any(
                    b_["type"] == "Identifier" and b_["value"] == rn for f_ in walk(fn["body"]) if f_["type"] in ("ArrowFunctionExpression", "FunctionExpression", "FunctionDeclaration", "CatchClause")
                    for p_ in (f_.get("params") or ([f_["param"]] if f_.get("param") else [])) for b_ in walk(p_))
                assigned = any((a_["type"] == "AssignmentExpression" and s(a_["left"]) == rn) or (a_["type"] == "UpdateExpression" and s(a_["argument"]) == rn) for a_ in walk(fn))
                local_fns = [f_ for f_ in walk(fn["body"]) if f_["type"] == "FunctionDeclaration" and f_["identifier"]["value"] == rn]
                if shadow or assigned:
                    pass
                elif len(binds) == 1 and not local_fns and binds[0]["id"].get("type") == "Identifier" and binds[0].get("init") is not None and \
                        any(vd["kind"] == "const" and binds[0] in vd["declarations"] for vd in walk(fn) if vd["type"] == "VariableDeclaration"):
                    r = unparen(binds[0]["init"])
                elif not binds and len(local_fns) == 1:
                    r = {"type": "FunctionExpression"}
                elif not binds and not local_fns:
                    if rn in mod.functions:
                        r = {"type": "FunctionExpression"}
                    elif rn in mod.vars and mod.vars[rn][0] == "const" and mod.vars[rn][1] is not None:
                        r = unparen(mod.vars[rn][1])
            literal =r.get("type") == "StringLiteral" or (r.get("type") == "TemplateLiteral" and not r.get("expressions"))
            fnrep = r.get("type") in ("ArrowFunctionExpression", "FunctionExpression")
            rep.ob("C02.9", "%s/replace" % label, literal or fnrep,
                   "%s passes the computed string `%s` as the replacement of String.replace: `$$` / `$&` inside it are interpreted, so a name containing `$` comes out changed" % (label, s(r_shown)[:40]),
                   mod.loc(n), sample={"fn": label, "replacement": "literal" if literal else "function"})
    rep.floor("C02.9", "String.replace calls in the runtime", n_rep, 2)
    # ---------------------------------------------------------------- C02.8
    rep.rule("C02.8", "dictionaries keyed by type names have no prototype")
    name_keyed_dict_rule(fam, mod, rep, "C02.8")
    # ---------------------------------------------------------------- C02.7
    rep.rule("C02.7", "every call from the parser facade into a validator gets a context created in that call")
    # The per-call contexts carry scratch state (`path`, the `seen` marks of references being printed) that the
    # printers restore only on normal exit.  A context that outlives the call - instance or module state - keeps the
    # marks of a call that threw (Date, bigint, Map ..): the next schema() call then sees the type as "being printed"
    # and returns {} instead of throwing.  Required: the ctx argument is an object literal, or a local const initialised
    # with one, inside the calling method.
    n_ctx = 0
    for cname, c in sorted(mod.classes.items()):
        if "BeffParser" not in c.implements:
            continue
        for mname, m in sorted(c.methods.items()):
            fn = m["function"]
            if fn.get("body") is None:
                continue
            al = ts_common.local_aliases(fn)
            for n in walk(fn):
                if n["type"] != "CallExpression":
                    continue
                mc = method_call(n)
                if not mc or not s(mc[0]).startswith("this._runtype") or not mc[2] or mc[1] not in fam.iface_methods:
                    continue
                a0 = unparen(mc[2][0])
                src = a0
                if a0.get("type") == "Identifier" and a0["value"] in al:
                    src = unparen(al[a0["value"]])
                n_ctx += 1
                fresh = src.get("type") == "ObjectExpression"
                if not fresh and src.get("type") == "CallExpression":
                    # a local factory that returns a new object literal on every call (`newDescribeContext()`)
                    r_ = tsast.resolve_local_call(mod, cname, src)
                    if r_ is not None:
                        rets = [r2 for r2 in tsast.walk_no_nested_fn(r_[0]["body"]) if r2["type"] == "ReturnStatement" and r2.get("argument") is not None]
                        fresh = bool(rets) and all(unparen(r2["argument"]).get("type") == "ObjectExpression" for r2 in rets)
                rep.ob("C02.7", "%s.%s/%s" % (cname, mname, mc[1]), fresh,
                       "%s.%s hands `%s` to %s(): the context is not created in this call, so marks left behind by a call that threw (or by a concurrent print) are seen by the next one" % (cname, mname, s(a0)[:50], mc[1]),
                       mod.loc(n), sample={"facade_method": mname, "callee": mc[1], "ctx": "fresh object literal"})
    rep.floor("C02.7", "facade calls into the validator", n_ctx, 8)
    # ---------------------------------------------------------------- C02.6
    rep.rule("C02.6", "a merged object schema requires what every merged member requires")
    merge_required_rule(mod, rep, "C02.6")
    # ---------------------------------------------------------------- C02.4
    rep.rule("C02.4", "every $ref has an ensured definition")
    n_ref = 0
    for cname, c in sorted(fam.classes.items()):
        for mname, m in c.methods.items():
            fn = m["function"]
            if fn.get("body") is None:
                continue
            for call in [x for x in walk(fn) if x["type"] == "CallExpression" and method_call(x) and method_call(x)[1] == "getRef"]:
                n_ref += 1
                name = s(method_call(call)[2][0])
                ok = False
                for prev in walk(fn):
                    if prev["type"] == "CallExpression" and prev["span"]["end"] <= call["span"]["start"]:
                        mc = method_call(prev)
                        if not mc:
                            # a plain call f(..) of a module-level helper
                            if unparen(prev["callee"]).get("type") != "Identifier":
                                continue
                            mc = (None, unparen(prev["callee"])["value"], [a_.get("expression", a_) for a_ in prev["arguments"]])
                        # the ensure step must lie on every path to the $ref: it may only be nested in the
                        # definition-absent guard itself, never in a condition the $ref emission does not share
                        cond_ok = True
                        for i in walk(fn):
                            if i["type"] in ("IfStatement", "ConditionalExpression") and any(x is prev for x in walk(i)) and not any(x is call for x in walk(i)):
                                # (a test read into a local first is the same test)
                                al4 = ts_common.local_aliases(fn)
                                t = s(i["test"]) + " " + " ".join(s(al4[x["value"]]) for x in walk(i["test"]) if x["type"] == "Identifier" and x["value"] in al4)
                                if "hasDefinition(" not in t and "isDefinitionInProgress(" not in t:
                                    cond_ok = False
                        if not cond_ok:
                            continue
                        if mc[1] == "storeDefinition" and s(mc[2][0]) == name:
                            ok = True
                        # a local helper that is handed the name and stores the definition for THAT parameter
                        # (whatever it is called, wherever the name stands in its parameter list)
                        r_ = tsast.resolve_local_call(mod, cname, prev)
                        if r_ is not None and any(s(a_) == name for a_ in mc[2]):
                            def stores_param(hfn, howner, pname, depth=0):
                                for y in walk(hfn):
                                    if y["type"] != "CallExpression":
                                        continue
                                    my = method_call(y)
                                    if my and my[1] == "storeDefinition" and s(my[2][0]) == pname:
                                        return True
                                    # handed on to the next helper
                                    r2 = tsast.resolve_local_call(mod, howner or cname, y) if depth < 3 else None
                                    if r2 is not None and r2[0] is not hfn:
                                        args2 = my[2] if my else [a2.get("expression", a2) for a2 in y["arguments"]]
                                        hp2 = ts_common.fn_params(r2[0])
                                        for j_, a2 in enumerate(args2):
                                            if s(a2) == pname and j_ < len(hp2) and hp2[j_] and stores_param(r2[0], r2[1], hp2[j_], depth + 1):
                                                return True
                                return False
                            hps = ts_common.fn_params(r_[0])
                            for i_, a_ in enumerate(mc[2]):
                                if s(a_) == name and i_ < len(hps) and hps[i_]:
                                    if stores_param(r_[0], r_[1], hps[i_]):
                                        ok = True
                rep.ob("C02.4", "%s.%s/%s" % (cname, mname, name), ok,
                       "%s.%s emits a $ref for `%s` that is not preceded by the ensure-definition sequence (guard -> mark -> schema -> store) for the same name" % (cname, mname, name),
                       mod.loc(call), sample={"site": "%s.%s" % (cname, mname), "name": name})
    rep.floor("C02.4", "$ref emission sites", n_ref, 2)
    # ---------------------------------------------------------------- C02.11
    rep.rule("C02.11", "schema() reads every constructor argument it read on the reviewed tree")
    ts_common.field_matrix_rule(cx, rep, "C02.11", ['schema'])
    # ---------------------------------------------------------------- C02.13
    rep.rule("C02.13", "schema(): every element of an array-valued constructor argument is accounted for (no fixed-size prefix)")
    ts_common.truncation_rule(cx, rep, "C02.13", ['schema'])
    # ---------------------------------------------------------------- C02.14 (= C16.4)
    rep.rule("C02.14", "schema printing keeps no state on the validator instances: every context is given the definitions its $refs need")
    from rules.c16 import instance_state_rule
    instance_state_rule(mod, mod.classes.get("SchemaPrintingContext"), rep, "C02.14")
    # ---------------------------------------------------------------- C02.16
    rep.rule("C02.16", "a local dictionary read by data-derived keys has no prototype")
    data_keyed_dict_rule(mod, rep, "C02.16")
    # ---------------------------------------------------------------- C02.17
    rep.rule("C02.17", "the allOf fast path never folds the closed shape of an index signature into the other members")
    closed_shape_merge_rule(fam, mod, rep, "C02.17")
    # ---------------------------------------------------------------- C02.18
    rep.rule("C02.18", "a subschema built from an index signature does not constrain the declared keys")
    index_subschema_rule(fam, mod, rep, "C02.18")
    # ---------------------------------------------------------------- C02.20
    rep.rule("C02.20", "the optional-field wrapper always prints the null branch the object schema recognises optional properties by")
    optional_null_branch_rule(fam, mod, rep, "C02.20")
    # ---------------------------------------------------------------- C02.19
    rep.rule("C02.19", "a discriminated union is only built on a property that is required in every member")
    discriminator_required_rule(cx, rep, "C02.19")
    # ---------------------------------------------------------------- C02.15
    rep.rule("C02.15", "the canonical rendering that decides whether two schemas are equal keeps the order of arrays")
    canonical_json_rule(mod, rep, "C02.15")
    # ---------------------------------------------------------------- C02.22
    rep.rule("C02.22", "the schema of a tuple closes the array: `items` is the rest element's schema or `false`, in every returned schema")
    closed_tuple_schema_rule(fam, mod, rep, "C02.22")
    # ---------------------------------------------------------------- C02.21
    rep.rule("C02.21", "a discriminator key is turned back into the literal it was read from (key extractor and key -> literal constructor are inverse)")
    key_literal_inverse_rule(cx, rep, "C02.21")
    # ---------------------------------------------------------------- C02.12
    rep.rule("C02.12", "the schema table of a discriminated union narrows each variant to its key")
    disc_schema_table_rule(cx, rep, "C02.12")


def disc_schema_table_rule(cx, rep, rid, which="schema"):
    """which="validator" (C04.12, guards fix 3755d7e): the same necessary condition on the VALIDATOR table (the argument
    before the schema table).  An entry that lists several variants is printed as their union; unless those variants are
    narrowed to the key, a variant carrying other literals too makes that union a discriminated union over the same
    variants again and the printer rebuilds it until the stack overflows (valid, non-recursive input).  There the
    narrowing may be conditional (it is needed only when several variants are listed), so only its existence is decided.

    schema() of a discriminated union prints `oneOf` with one branch per discriminator KEY, taken from the last
    constructor argument (the schema table the compiler emits).  A variant that carries several literals is listed
    under each of them; unless the compiler narrows the variant's discriminator to the key of the entry, the branches
    of those keys are the same schema and every value of the variant matches two of them: `oneOf` rejects what
    validate() accepts (genuine defect repaired by efd9347).  Decided (a necessary condition): the code that builds the
    LAST argument of `AnyOfDiscriminatedRuntype` - the initialiser of the local, with the project helpers it calls -
    constructs a Runtype from a string that is not a literal (the key) through a Runtype constructor."""
    import facts as RF
    F = cx.rs
    owner_of = {}

    def builds_const_from_var(root, crate, owner=None, own_gid=None):
        seen = {own_gid}     # the table builder is not searched again through the printer's own recursion
        stack = [(root, owner)]
        while stack:
            r, own_ = stack.pop()
            for x in RF.walk(r):
                if x["k"] not in ("Call", "MethodCall"):
                    continue
                cal = x.get("callee") if x["k"] == "Call" else (x.get("resolved") or x.get("callee"))
                if not cal:
                    continue
                args = list(x.get("args") or [])
                if "runtype::Runtype::" in cal and (x.get("ty") or "").endswith("runtype::Runtype") and args:
                    if any((a.get("ty") or "").replace("&", "").strip() in ("str", "std::string::String") and a["k"] != "Lit" for a in args):
                        owner_of[id(x)] = own_
                        return x
                tg = F._callee_gid(crate, cal)
                if tg in F.hir and tg not in seen:
                    seen.add(tg)
                    stack.append((F.hir[tg]["body"], F.hir[tg]))
        return None

    def mode_enum(ty):
        """a fieldless enum of the project: a mode parameter (b92: `NarrowDiscriminator::{Always, WhenShared}` in place of a bool)"""
        a = F.adts.get((ty or "").replace("&", "").replace("mut ", "").strip())
        return a is not None and a.get("kind") == "Enum" and bool(a.get("variants")) and all(not v_.get("fields") for v_ in a["variants"])

    def imm_lets(tree):
        out = {}
        for x in RF.walk(tree["body"]):
            if x["k"] == "LetStmt" and x.get("init") is not None and x["pat"].get("k") == "P.Binding" and not x["pat"].get("mut"):
                out[x["pat"].get("lid")] = x["init"]
        return out

    def value_of(e, env, lets, depth=0):
        """what is known of a mode expression: True / False / ("variant", path of a unit variant) / None (unknown).
        env: parameter lid -> value, for the function the expression stands in; immutable lets are read through; a
        `match` (also `matches!`) on a known variant is the body of the arm it selects."""
        e = RF.strip_block(e)
        k = e["k"]
        if k in ("AddrOf", "DropTemps", "Paren") or (k == "Unary" and e.get("op") == "Deref"):
            return value_of(e["e"], env, lets, depth)
        if k == "Lit":
            return (str(e.get("v", e.get("value", ""))).lower() == "true") if e.get("lit") == "bool" else None
        if k == "Path":
            if e.get("res") == "local":
                if e.get("lid") in env:
                    return env[e["lid"]]
                if e.get("lid") in lets and depth < 4:
                    return value_of(lets[e["lid"]], env, lets, depth + 1)
                return None
            if e.get("res") == "def" and "::" in (e.get("def") or "") and mode_enum(e["def"].rsplit("::", 1)[0]):
                return ("variant", e["def"])
            return None
        if k == "Unary" and e.get("op") == "Not":
            v = value_of(e["e"], env, lets, depth)
            return (not v) if isinstance(v, bool) else None
        if k == "Binary" and e.get("op") in ("And", "Or", "Eq", "Ne"):
            l, r = value_of(e["l"], env, lets, depth), value_of(e["r"], env, lets, depth)
            if e["op"] == "And":
                return False if (l is False or r is False) else (True if (l is True and r is True) else None)
            if e["op"] == "Or":
                return True if (l is True or r is True) else (False if (l is False and r is False) else None)
            if isinstance(l, tuple) and isinstance(r, tuple):
                return (l == r) == (e["op"] == "Eq")
            return None
        if k == "If" and e.get("else") is not None:
            c = value_of(e["cond"], env, lets, depth)
            return value_of(e["then"] if c else e["else"], env, lets, depth) if isinstance(c, bool) else None
        if k == "Match":
            arm = selected_arm(e, env, lets, depth)
            return value_of(arm["body"], env, lets, depth) if arm is not None else None
        return None

    def selected_arm(m, env, lets, depth=0):
        """the arm a `match` on a mode takes when the variant of the scrutinee is known (None: not known)"""
        sv = value_of(m["scrut"], env, lets, depth)
        if not isinstance(sv, tuple):
            return None
        for arm in m.get("arms") or []:
            pats = arm["pat"]["pats"] if arm["pat"]["k"] == "P.Or" else [arm["pat"]]
            if any(p_["k"] in ("P.Wild", "P.Binding") or p_.get("def") == sv[1] for p_ in pats):
                return arm if arm.get("guard") is None else None
            if any(not p_.get("def") for p_ in pats):
                return None      # a pattern this reading does not understand
        return None

    def flag_guards(hit, tree, env=None):
        """mode PARAMETERS (of the function or of a closure; bool-typed, or a fieldless project enum) that decide whether
        the narrowing call runs: what the conditions it stands under (`if`, the arm of a `match` on a mode) still depend
        on once the parameter values in `env` (lid -> value_of) are put in - `narrow && key == d` depends on `narrow`,
        not at all once narrow is known to be true; `matches!(mode, Always) || several` not on `several` under Always"""
        if tree is None:
            return [], True
        env = env or {}
        taken = True     # False: a condition whose value is known under env excludes the site
        parents = {}
        for x in RF.walk(tree["body"]):
            for c_ in RF.children(x):
                parents[id(c_)] = x
        params = {}
        for p_ in tree.get("params", []):
            for b_ in RF.walk(p_):
                if b_["k"] == "P.Binding":
                    params[b_.get("lid")] = b_
        for x in RF.walk(tree["body"]):
            if x["k"] == "Closure":
                for p_ in x.get("params", []):
                    for b_ in RF.walk(p_):
                        if b_["k"] == "P.Binding":
                            params[b_.get("lid")] = b_
        lets = {}
        for x in RF.walk(tree["body"]):
            if x["k"] == "LetStmt" and x.get("init") is not None and x["pat"].get("k") == "P.Binding":
                lets[x["pat"].get("lid")] = x["init"]
        ilets = imm_lets(tree)
        bad = []

        def mode_param(z):
            while z["k"] in ("AddrOf", "DropTemps", "Paren") or (z["k"] == "Unary" and z.get("op") == "Deref"):
                z = z["e"]
            return z if z["k"] == "Path" and z.get("res") == "local" and z.get("lid") in params and mode_enum(z.get("ty")) else None

        def scan(e, depth=0, known=True):
            """known=False: every flag read counts (the condition is known to FAIL under env)"""
            e = RF.strip_block(e)
            if known and value_of(e, env, ilets) is not None:
                return           # decided by the mode the schema table is built in: depends on nothing
            if e["k"] == "Binary" and e.get("op") in ("And", "Or"):
                scan(e["l"], depth, known)
                scan(e["r"], depth, known)
                return
            if e["k"] == "Unary" and e.get("op") == "Not":
                scan(e["e"], depth, known)
                return
            for z in RF.walk(e):
                if z["k"] == "Path" and z.get("res") == "local" and (z.get("ty") or "").replace("&", "").strip() == "bool":
                    if z.get("lid") in params:
                        bad.append(z.get("name"))
                    elif z.get("lid") in lets and depth < 3:
                        scan(lets[z["lid"]], depth + 1, known)
                elif mode_param(z) is z:
                    bad.append(z.get("name"))      # a mode enum read by the condition
        cur = hit
        while id(cur) in parents:
            par = parents[id(cur)]
            if par["k"] == "If" and not any(z is cur for z in RF.walk(par["cond"])):
                v_ = value_of(par["cond"], env, ilets)
                if v_ is not None and v_ is not (cur is not par.get("else")):
                    taken = False
                scan(par["cond"], 0, taken)
            if par["k"] == "Arm" and id(par) in parents and parents[id(par)]["k"] == "Match" and cur is not par.get("guard"):
                m_ = parents[id(par)]
                if mode_param(m_["scrut"]) is not None:
                    # the call stands in an arm of a `match` on the mode: the arm has to be the one the mode selects
                    sel_ = selected_arm(m_, env, ilets)
                    if sel_ is not par:
                        taken = taken and (sel_ is None)
                        bad.append(mode_param(m_["scrut"]).get("name"))
                        if par.get("guard") is not None:
                            scan(par["guard"], 0, False)
            cur = par
        return sorted(set(bad)), taken
    n = 0
    for g in sorted(F.hir):
        f = F.fns.get(g)
        if f is None or "/src/print/" not in (f.file or ""):
            continue
        body = F.hir[g]["body"]
        for call in RF.walk(body):
            if call["k"] != "Call":
                continue
            args = call.get("args") or []
            if not (args and is_str_lit(F, args[0], "AnyOfDiscriminatedRuntype")):
                continue
            arrs = [x for a in args[1:] for x in RF.walk(a) if x["k"] == "Array"]
            if not arrs:
                continue
            elems = list(RF.children(arrs[0]))
            if not elems:
                continue
            n += 1
            if which == "validator" and len(elems) < 2:
                continue
            last = elems[-1] if which == "schema" else elems[-2]
            roots = [last]
            lids = {p.get("lid") for p in RF.walk(last) if p["k"] == "Path" and p.get("res") == "local"}
            for st in RF.walk(body):
                if st["k"] == "LetStmt" and st.get("init") is not None and any(p.get("lid") in lids for p in RF.walk(st["pat"])):
                    roots.append(st["init"])
            hit = None
            for r in roots:
                hit = hit or builds_const_from_var(r, f.crate, F.hir[g], g)
            if which == "validator":
                rep.ob(rid, "%s/validator-table-narrowed" % f.id.rsplit("::", 1)[-1], hit is not None,
                       "%s passes a validator table to AnyOfDiscriminatedRuntype whose entries are never narrowed to their key (no Runtype is constructed from the key string): for `{kind: 'pet' | 'cat'; a: string} | {kind: 'pet'; b: number}` the entry of 'pet' is the union of both variants unchanged, which is dispatched on `kind` again with the same two carriers - the printer re-enters itself until the stack overflows on valid, non-recursive input" % f.id,
                       "%s:%s" % (f.file, call["line"]), sample={"fn": f.id, "narrowing_call": (hit or {}).get("callee") or (hit or {}).get("resolved"), "line": (hit or {}).get("line")})
                continue
            if hit is not None:
                otree = owner_of.get(id(hit))
                flags, _ = flag_guards(hit, otree)
                if otree is not None and otree is not F.hir[g]:
                    # a shared table builder with a mode parameter is fine when the SCHEMA table is built with the
                    # literal `true`: judge the flag at the calls that produce the last argument.
                    # b92 (round 11, Z3): the mode may be an enum (`NarrowDiscriminator::Always` at the schema-table
                    # call) that the builder turns into the flag of a further helper (`let narrow = match narrowing
                    # { Always => true, WhenShared => carriers.len() > 1 }; .. variant_case(.., narrow)`).  The values
                    # of the mode parameters are therefore carried from the calls that produce the last argument down
                    # the helpers that lead to the narrowing call (not back through the printer's own recursion); the
                    # conditions around the narrowing call are judged under every environment its helper is entered
                    # with, and so are the conditions around the helper calls on the way.
                    ogid = next((k_ for k_, v_ in F.hir.items() if v_ is otree), None)

                    def callees(e):
                        for c_ in RF.walk(e):
                            if c_["k"] in ("Call", "MethodCall"):
                                tg_ = F._callee_gid(f.crate, (c_.get("callee") if c_["k"] == "Call" else (c_.get("resolved") or c_.get("callee"))) or "")
                                if tg_ in F.hir and tg_ != g:
                                    yield c_, tg_
                    leads = {ogid: True}     # helper -> the narrowing helper is reached from it without re-entering the builder g

                    def leads_to(tg_):
                        if tg_ not in leads:
                            leads[tg_] = False
                            leads[tg_] = any(leads_to(t2) for _, t2 in callees(F.hir[tg_]["body"]))
                        return leads[tg_]
                    entered, seen_env, on_the_way = [], set(), set()
                    work = [(r, {}, imm_lets(F.hir[g]), None) for r in roots]
                    while work:
                        e_, env_, lets_, tree_ = work.pop()
                        for c_, tg_ in callees(e_):
                            if not leads_to(tg_):
                                continue
                            if tree_ is not None:
                                fl_, taken_ = flag_guards(c_, tree_, env_)
                                if not taken_:
                                    continue     # this call is not made in the mode the schema table is built in
                                on_the_way |= set(fl_)
                            args_ = ([c_["recv"]] if c_["k"] == "MethodCall" else []) + list(c_.get("args") or [])
                            cenv = {}
                            for i_, p_ in enumerate(F.hir[tg_].get("params", [])):
                                v_ = value_of(args_[i_], env_, lets_) if i_ < len(args_) and p_.get("k") == "P.Binding" else None
                                if v_ is not None:
                                    cenv[p_.get("lid")] = v_
                            if tg_ == ogid:
                                entered.append(cenv)
                            key_ = (tg_, tuple(sorted(cenv.items())))
                            if key_ not in seen_env and len(seen_env) < 64:
                                seen_env.add(key_)
                                work.append((F.hir[tg_]["body"], cenv, imm_lets(F.hir[tg_]), F.hir[tg_]))
                    if entered:
                        flags = sorted(on_the_way | {fl_ for env_ in entered for fl_ in flag_guards(hit, otree, env_)[0]})
                rep.ob(rid, "%s/narrowing-unconditional" % f.id.rsplit("::", 1)[-1], not flags,
                       "the entries of the schema table of AnyOfDiscriminatedRuntype are narrowed to their key only when the flag(s) %s hold: whether a variant carries several discriminator literals cannot be read off a count or a mode - for the inputs where the flag is off, a variant listed under two keys is printed twice with the same body, `oneOf` has two matching branches for its values and the schema rejects what validate() accepts" % flags,
                       "%s:%s" % (f.file, hit["line"]), sample={"fn": f.id, "flags": flags})
            rep.ob(rid, "%s/schema-table-narrowed" % f.id.rsplit("::", 1)[-1], hit is not None,
                   "%s passes a schema table to AnyOfDiscriminatedRuntype whose entries are never narrowed to their key (no Runtype is constructed from the key string): a variant with several discriminator literals is printed under each of them with the same body, `oneOf` then has two matching branches for every value of that variant and the schema rejects what validate() accepts" % f.id,
                   "%s:%s" % (f.file, call["line"]), sample={"fn": f.id, "narrowing_call": (hit or {}).get("callee") or (hit or {}).get("resolved"), "line": (hit or {}).get("line")})
    rep.floor(rid, "constructions of AnyOfDiscriminatedRuntype in the printer", n, 1)



def canonical_json_rule(mod, rep, rid):
    """Whether two members of an intersection declare the SAME schema for a shared key is decided by comparing a
    canonical rendering of the two schemas (object keys sorted).  JSON arrays are ordered: `prefixItems` is positional,
    so a rendering that also sorts array elements makes `[number, unknown]` and `[unknown, number]` equal, the
    intersection is merged into one object that keeps only one of the tuples, and the schema accepts documents the
    validator rejects.  Decided on every self-recursive module function with an `Array.isArray(<parameter>)` branch
    (a structural renderer): that branch contains no sort / reverse."""
    n = 0
    for fname, d in sorted(mod.functions.items()):
        if d.get("body") is None:
            continue
        ps = ts_common.fn_params(d)
        if not ps or not any(c["type"] == "CallExpression" and any(x["type"] == "Identifier" and x["value"] == fname for x in walk(c)) for c in walk(d)):
            continue
        for i in walk(d):
            if i["type"] not in ("IfStatement", "ConditionalExpression"):
                continue
            t = unparen(i["test"])
            if not (t.get("type") == "CallExpression" and s(t["callee"]) == "Array.isArray" and t["arguments"] and s(t["arguments"][0]["expression"]) == ps[0]):
                continue
            n += 1
            bad = [x for x in walk(i["consequent"]) if x["type"] == "CallExpression" and method_call(x) and method_call(x)[1] in ("sort", "reverse", "toSorted", "toReversed")]
            rep.ob(rid, "%s/array-branch" % fname, not bad,
                   "%s reorders the elements of a JSON array (%s) while rendering a value structurally: arrays that differ only in the order of their elements (positional `prefixItems`) compare equal, so schemas that mean different things are treated as the same declaration" % (fname, bad and method_call(bad[0])[1]),
                   mod.loc(bad[0] if bad else i), sample={"fn": fname, "array_branch_reorders": bool(bad)})
    rep.floor(rid, "structural renderers with an array branch", n, 1)


def data_keyed_dict_rule(mod, rep, rid):
    """A local dictionary that starts as `{}` and is then READ with a key that comes from data (`d[key]`, `key in d`)
    answers `constructor`, `toString`, `hasOwnProperty`, `__proto__` from Object.prototype.  In the schema printers the
    keys are property names of the user's types: `{constructor: string} & {b: number}` found an inherited function
    under `properties["constructor"]`, took it for a conflicting declaration and fell back to an `allOf` of closed
    objects, which rejects every value of the type (repaired: the dictionary has no prototype).  Decided for every
    function of codegen-v2.ts: a local initialised with an empty object literal and read by a computed, non-literal
    key is not a plain `{}` (`Object.create(null)` / the repo's helper / a Map)."""
    n = 0
    fns = [(k, v) for k, v in sorted(mod.functions.items())]
    for cname, c in sorted(mod.classes.items()):
        fns += [("%s.%s" % (cname, mn), m["function"]) for mn, m in sorted(c.methods.items())]
    for fname, fn in fns:
        if fn.get("body") is None:
            continue
        empties = {}
        for d in walk(fn):
            if d["type"] == "VariableDeclarator" and d["id"].get("type") == "Identifier" and d.get("init") is not None:
                i = unparen(d["init"])
                while i.get("type") in ("TsAsExpression", "TsConstAssertion", "TsTypeAssertion"):
                    i = unparen(i["expression"])
                if i.get("type") == "ObjectExpression" and not i.get("properties"):
                    empties[d["id"]["value"]] = d
        if not empties:
            continue
        assigned_targets = {id(a["left"]) for a in walk(fn) if a["type"] == "AssignmentExpression"}
        for x in walk(fn):
            nm, key = None, None
            if x["type"] == "MemberExpression" and x["property"]["type"] == "Computed" and unparen(x["object"]).get("type") == "Identifier" and id(x) not in assigned_targets:
                nm, key = unparen(x["object"])["value"], unparen(x["property"]["expression"])
            elif x["type"] == "BinaryExpression" and x["operator"] == "in" and unparen(x["right"]).get("type") == "Identifier":
                nm, key = unparen(x["right"])["value"], unparen(x["left"])
            if nm not in empties or key is None or key.get("type") in ("StringLiteral", "NumericLiteral"):
                continue
            n += 1
            rep.ob(rid, "%s/%s" % (fname, nm), False,
                   "%s reads the local dictionary `%s` (created as a plain `{}`) with the data-derived key `%s`: for a key such as `constructor` or `toString` the lookup answers with a member of Object.prototype, so a property of that name is treated as already declared / conflicting" % (fname, nm, s(key)[:40]),
                   mod.loc(x), sample={"fn": fname, "dictionary": nm, "key": s(key)[:40]})
    rep.ob(rid, "scan", True, sample={"functions_scanned": len(fns), "plain_dictionaries_read_by_data_keys": n})
    rep.floor(rid, "functions scanned for data-keyed plain dictionaries", len(fns), 100)


def closed_shape_merge_rule(fam, mod, rep, rid):
    """`additionalProperties: false` has two meanings in the printed schemas.  Printed for an object WITHOUT index
    signature it lists the declared keys (the validator tolerates others unless strict mode is on), and the allOf fast
    path may fold several such members into one object.  Printed for an object WITH an index signature whose value is
    `never` (`Record<string, never>`) it forbids every key, also the ones the OTHER members of an intersection declare.
    Folding such a member drops that constraint: `Record<string, never> & {a: string}` printed
    `{properties: {a}, additionalProperties: false}`, which accepts `{a: "x"}`; the validator rejects it.
    Decided: (1) the object literals with `additionalProperties: false` and only mergeable keys that a class with an
    index-signature field returns from schema() - those NOT under a condition establishing `no index signature` are
    the index-derived closed shapes; (2) if there is one, every call from a schema() method into the folding function
    (a module function that reaches the predicate testing `additionalProperties !== false`) lies under a condition that
    no member has an index signature (an atom over a function / method that reads the index-signature field)."""
    # the predicate and its vocabulary
    preds = {}
    for fname, d in mod.functions.items():
        if d.get("body") is None:
            continue
        for x in walk(d["body"]):
            if x["type"] == "BinaryExpression" and x["operator"] in ("!==", "!=", "===", "==") and s(x["left"]).endswith(".additionalProperties") \
                    and unparen(x["right"]).get("type") == "BooleanLiteral" and unparen(x["right"])["value"] is False:
                preds[fname] = d
    vocab = None
    for fname, d in preds.items():
        for x in walk(d["body"]):
            mc = method_call(x) if x["type"] == "CallExpression" else None
            if mc and mc[1] == "has" and unparen(mc[0]).get("type") == "Identifier":
                init = (mod.vars.get(unparen(mc[0])["value"]) or (None, None, None))[1]
                if init is not None:
                    keys = [unparen(e["expression"]).get("value") for a in walk(init) if a["type"] == "ArrayExpression" for e in a["elements"] if e and unparen(e["expression"]).get("type") == "StringLiteral"]
                    if keys:
                        vocab = set(keys)
    folders = set(preds)
    for _ in range(2):
        for fname, d in mod.functions.items():
            if d.get("body") is None or fname in folders:
                continue
            if any(x["type"] == "CallExpression" and unparen(x["callee"]).get("type") == "Identifier" and unparen(x["callee"])["value"] in folders for x in walk(d["body"])):
                folders.add(fname)
    # (1) index-derived closed shapes
    derived = []
    n_plain = 0
    ix_classes = {}
    for cname in sorted(fam.concrete()):
        ixf = ts_common.index_signature_field(fam, cname)
        if not ixf:
            continue
        ix_classes[cname] = ixf
        _, m = fam.resolve_method(cname, "schema")
        if not m or m["function"].get("body") is None:
            continue
        fn = m["function"]
        names = {"this.%s" % ixf}
        for x in walk(fn):
            if x["type"] == "VariableDeclarator" and x["id"].get("type") == "Identifier" and x.get("init") is not None:
                mc = method_call(unparen(x["init"]))
                if mc and mc[1] == "map" and s(mc[0]) in names:
                    names.add(x["id"]["value"])
        for o in walk(fn):
            if o["type"] != "ObjectExpression":
                continue
            keys = {}
            for p in o["properties"]:
                if p["type"] == "KeyValueProperty":
                    keys[tsast.prop_key(p["key"])] = p["value"]
            ap = keys.get("additionalProperties")
            if ap is None or unparen(ap).get("type") != "BooleanLiteral" or unparen(ap)["value"] is not False:
                continue
            if vocab is not None and any(k not in vocab for k in keys):
                continue
            plain = False
            for a_, v_ in ts_common.known_atoms(fn, o).items():
                a2 = a_.replace("(", "").replace(")", "").replace(" ", "")
                for nm in names:
                    ln = nm + ".length"
                    if (a2 in (ln + "===0", ln + "==0", ln + "<1") and v_ is True) or (a2 in (ln + ">0", ln + "!==0", ln + "!=0", ln + ">=1", ln) and v_ is False):
                        plain = True
            if plain:
                n_plain += 1
            else:
                derived.append((cname, o))
    rep.floor(rid, "closed object shapes printed by classes with an index-signature field", n_plain + len(derived), 1)
    if not derived:
        rep.ob(rid, "no-index-derived-closed-shape", True, sample={"plain_closed_shapes": n_plain})
        return
    # names that read the index-signature field
    readers = set(ix_classes.values())
    for _ in range(2):
        for fname, d in mod.functions.items():
            if d.get("body") is not None and any(x["type"] == "Identifier" and x["value"] in readers for x in walk(d["body"])):
                readers.add(fname)
        for cname in ix_classes:
            for mname, m in fam.classes[cname].methods.items():
                b = m["function"].get("body")
                if b is not None and mname not in ("schema", "validate", "parseAfterValidation", "reportDecodeError", "hash", "hash256", "describeTypeExpr", "describeChildren") \
                        and any(x["type"] == "Identifier" and x["value"] in readers for x in walk(b)):
                    readers.add(mname)
    n_calls = 0
    from rules.c16 import schema_reachable_methods
    scopes = []
    for cname in sorted(fam.concrete()):
        c_ = fam.classes.get(cname) or mod.classes.get(cname)
        if c_ is None or "schema" not in c_.methods or c_.methods["schema"]["function"].get("body") is None:
            continue
        for mn in sorted(schema_reachable_methods(c_)):
            scopes.append((cname, c_.methods[mn]["function"]))
    for cname, fn in scopes:
        for x in walk(fn):
            if x["type"] == "CallExpression" and unparen(x["callee"]).get("type") == "Identifier" and unparen(x["callee"])["value"] in folders:
                n_calls += 1
                ok = False
                for a_, v_ in ts_common.known_atoms(fn, x).items():
                    e = ts_common._NODES.get(a_)
                    ids = {i["value"] for i in walk(e) if i["type"] == "Identifier"} if e is not None else set()
                    if not (ids & readers):
                        continue
                    if ".some(" in a_ and v_ is False:
                        ok = True
                    elif ".every(" in a_ and v_ is True and "!" in a_:
                        ok = True
                    elif ".some(" not in a_ and ".every(" not in a_ and v_ is False and not a_.lstrip("(").startswith("!"):
                        ok = True
                rep.ob(rid, "%s.schema/fold-excludes-index-signatures" % cname, ok,
                       "%s.schema() folds the member schemas into one object (%s) although a member may be an object with an index signature, whose closed shape (`additionalProperties: false` printed for an index signature of `never`) forbids every key: folding keeps the other members' declared keys and drops that constraint - `Record<string, never> & {a: string}` then prints a schema that accepts {a: \"x\"} while validate() rejects it" % (cname, s(x["callee"])),
                       mod.loc(x), sample={"index_derived_closed_shapes": [mod.loc(o) for _, o in derived], "readers": sorted(readers)})
    rep.floor(rid, "calls into the schema-folding function", n_calls, 1)


def index_subschema_rule(fam, mod, rep, rid):
    """An index signature constrains the keys the object does NOT declare.  In JSON Schema `propertyNames` and
    `additionalProperties` of a subschema constrain EVERY key the subschema does not list under `properties` /
    `patternProperties` itself - sibling members of an `allOf` do not count.  So a subschema built from an index
    signature that is combined with the declared properties must list (exempt) the declared keys; otherwise a
    declared key has to satisfy the index signature too: for `{a: string; [k: `x${string}`]: number}` the exact member
    {a: "s"} is invalid against the printed schema (the name `a` does not match, the value is not a number).
    Decided on schema() of every class with an index-signature field: an object literal carrying `propertyNames`
    that is used where the object may have declared properties (not under a condition establishing that there are
    none) has a `properties` / `patternProperties` entry of its own."""
    n = 0
    for cname in sorted(fam.concrete()):
        ixf = ts_common.index_signature_field(fam, cname)
        if not ixf:
            continue
        _, m = fam.resolve_method(cname, "schema")
        if not m or m["function"].get("body") is None:
            continue
        fn = m["function"]
        # locals that hold index subschemas: initialised from an expression that contains (also through a private
        # helper) an object literal with `propertyNames`
        def index_literals(e):
            out = []
            for o in tsast.walk_inl(mod, cname, e):
                if o["type"] == "ObjectExpression":
                    keys = {tsast.prop_key(p["key"]) for p in o["properties"] if p["type"] == "KeyValueProperty"}
                    if "propertyNames" in keys:
                        out.append((o, keys))
            return out
        holders = {}
        for x in walk(fn):
            if x["type"] == "VariableDeclarator" and x["id"].get("type") == "Identifier" and x.get("init") is not None:
                ls = index_literals(x["init"])
                if ls:
                    holders[x["id"]["value"]] = ls
        # uses: return statements (through annotateSchema) mentioning the literal or a holder
        for r in tsast.walk_no_nested_fn(fn["body"]):
            if r["type"] != "ReturnStatement" or r.get("argument") is None:
                continue
            used = index_literals(r["argument"])
            for y in walk(r["argument"]):
                if y["type"] == "Identifier" and y["value"] in holders:
                    used += holders[y["value"]]
            if not used:
                continue
            none_declared = False
            for a_, v_ in ts_common.known_atoms(fn, r).items():
                a2 = a_.replace("(", "").replace(")", "").replace(" ", "")
                if "properties" in a2 and ".length" in a2 and ((a2.endswith("===0") or a2.endswith("==0")) and v_ is True or (a2.endswith(">0") or a2.endswith("!==0")) and v_ is False):
                    none_declared = True
            if none_declared:
                continue
            for o, keys in list({id(o_): (o_, k_) for o_, k_ in used}.values()):
                n += 1
                rep.ob(rid, "%s.schema/index-subschema-exempts-declared-keys" % cname, bool(keys & {"properties", "patternProperties"}),
                       "%s.schema() combines the declared properties with a subschema built from the index signature (`propertyNames`%s) that does not list the declared keys: in JSON Schema that subschema constrains EVERY key, so a declared key must match the index signature's key type and its value the index signature's value type - `{a: string; [k: `x${string}`]: number}` prints a schema against which its member {a: \"s\"} is invalid" % (cname, ", `additionalProperties`" if "additionalProperties" in keys else ""),
                       mod.loc(o), sample={"keys_of_the_subschema": sorted(keys)})
    rep.floor(rid, "index subschemas combined with declared properties", n, 1)


def optionality_erasers(F):
    """accessors that forget the optionality: inherent methods of Optionality that hand out the payload, or build
    `Required` in an arm for `Optional`"""
    from facts import walk as hwalk
    erasing = set()
    for g, f in F.fns.items():
        if not (f.impl_self or "").startswith("ast::runtype::Optionality") or g.startswith("<"):
            continue
        out = f.output or ""
        if out == "bool":
            continue
        if "Optionality" not in out:
            erasing.add(g)
        elif g in F.hir:
            for m in hwalk(F.hir[g]["body"]):
                if m["k"] == "Match":
                    for a in m["arms"]:
                        if any((p.get("def") or "").endswith("Optionality::Optional") for p in hwalk(a["pat"])) and \
                                any((x.get("def") or x.get("callee") or "").endswith("Optionality::Required") for x in hwalk(a["body"])):
                            erasing.add(g)
    return erasing


def discriminator_required_rule(cx, rep, rid):
    """A union of objects is emitted as a discriminated union (dispatch on one property: the validator rejects a value
    as soon as that property is missing) only if the property is REQUIRED in every member.  The flat schema still
    prints the members as they are, so with an optional discriminator `{y: "s"}` is valid against anyOf[A, B] and
    rejected by the validator.  Decided on the printer functions that call the builder of the discriminated form:
    the candidate property of each member is an `Optionality<Runtype>`; it must be taken apart by the `Required`
    pattern only - no accessor that forgets the optionality (`inner`, `inner_move`, anything that turns `Optional`
    into `Required`) and no arm that yields the payload of `Optional` - and there is at least one such test."""
    F = cx.rs
    from facts import walk as hwalk, walk_inlined
    builders = [g for g, t in F.hir.items() if F.fns.get(g) is not None and "/src/print/" in (F.fns[g].file or "") and F.fns[g].kind != "Closure"
                and t.get("params") and mentions_str_lit(F, t["body"], "AnyOfDiscriminatedRuntype")]
    if len(builders) != 1:
        rep.anchor_missing(rid, "the printer function that builds `new AnyOfDiscriminatedRuntype(..)`; found %d" % len(builders))
        return
    b = builders[0]
    erasing = optionality_erasers(F)
    callers = []
    for g, t in F.hir.items():
        f = F.fns.get(g)
        if f is None or g == b or f.kind == "Closure" or "/src/print/" not in (f.file or ""):
            continue
        if any(n["k"] == "Call" and F._callee_gid(f.crate, n.get("callee") or "") == b for n in hwalk(t["body"])):
            callers.append(g)
    n = 0
    for g in sorted(callers):
        f = F.fns[g]
        nodes = [x for x, _o in walk_inlined(F, g, private_only=True, _seen={g, b})]
        if not any("Optionality<" in (x.get("ty") or "") for x in nodes):
            continue          # a caller that is handed the discriminator already chosen
        n += 1
        er = []
        for x in nodes:
            if x["k"] in ("Call", "MethodCall"):
                cal = x.get("resolved") or x.get("callee") or ""
                tg = F._callee_gid(f.crate, cal)
                if tg in erasing or re.sub(r"<[^<>]*>", "<T>", cal) in erasing:
                    er.append((x, cal.rsplit("::", 1)[-1]))
            if x["k"] == "Match":
                for a in x["arms"]:
                    for p in hwalk(a["pat"]):
                        if (p.get("def") or "").endswith("Optionality::Optional") and any(q["k"] == "P.Binding" for q in hwalk(p)):
                            er.append((a, "an arm that uses the payload of Optional"))
        req = [p for x in nodes if x["k"] == "Match" for a in x["arms"] for p in hwalk(a["pat"]) if (p.get("def") or "").endswith("Optionality::Required")]
        rep.ob(rid, "%s/no-optionality-erasure" % g.rsplit("::", 1)[-1], not er,
               "%s chooses the discriminator of a union but reads a member's property through %s, which forgets whether the property is optional: a union whose shared literal key is optional in one member is emitted as a discriminated union, the validator then rejects values that omit the key although the member (and the printed anyOf schema) admits them" % (g, ", ".join(sorted({w for _, w in er}))),
               "%s:%s" % (f.file, er[0][0].get("line") if er else f.line), sample={"fn": g})
        rep.ob(rid, "%s/tests-required" % g.rsplit("::", 1)[-1], bool(req),
               "%s chooses the discriminator of a union without testing that the property is `Optionality::Required` in the members" % g,
               f.loc(), sample={"fn": g, "required_patterns": len(req)})
    rep.floor(rid, "printer functions that choose a discriminator", n, 1)


def optional_null_branch_rule(fam, mod, rep, rid):
    """Whether a property is OPTIONAL is not stored in the object class: ObjectRuntype.schema() decides it from the
    SHAPE of the property's schema - a union with a `{type: "null"}` branch is stripped of that branch
    (removeNullUnionBranch) and the key leaves `required`.  The wrapper class that stands for an optional field must
    therefore print that shape on every path; a shortcut for member types that already admit null (`unknown`)
    prints no null branch, the key stays required, and a document without it - a member of the type - is invalid.
    Decided: the class the object class tests with `instanceof` to mark a member optional (in describe / hash256) has
    a schema() every return of which is an object literal with an `anyOf` / `oneOf` array that contains the literal
    `{type: "null"}`."""
    # the optional-field wrapper: a class that object-member printers test with `instanceof`
    wrappers = set()
    for fname, d in list(mod.functions.items()) + [("%s.%s" % (cn, mn), m["function"]) for cn, c in fam.classes.items() for mn, m in c.methods.items()]:
        if d.get("body") is None:
            continue
        for x in walk(d):
            if x["type"] == "BinaryExpression" and x["operator"] == "instanceof" and unparen(x["right"]).get("type") == "Identifier":
                nm = unparen(x["right"])["value"]
                c = mod.classes.get(nm)
                if c is None or "validate" not in c.methods or "schema" not in c.methods:
                    continue
                v = c.methods["validate"]["function"]
                ps = ts_common.fn_params(v)
                # .. whose validate() lets null / undefined through before consulting its member
                if len(ps) > 1 and any(i_["type"] == "IfStatement" and s(i_["test"]).replace(" ", "") in ("(%s==null)" % ps[1], "(%s===null||%s===undefined)" % (ps[1], ps[1]))
                                       and any(r_["type"] == "ReturnStatement" and s(r_.get("argument") or {}) == "true" for r_ in walk(i_["consequent"])) for i_ in walk(v)) or \
                        (len(ps) > 1 and any(b_["type"] == "BinaryExpression" and b_["operator"] == "||" and s(b_["left"]).replace(" ", "") == "(%s==null)" % ps[1] for b_ in walk(v))):
                    wrappers.add(nm)
    n = 0
    for nm in sorted(wrappers):
        c = mod.classes[nm]
        fn = tsast.flatten_fn(mod, nm, c.methods["schema"]["function"])
        for r in tsast.walk_no_nested_fn(fn["body"]):
            if r["type"] != "ReturnStatement" or r.get("argument") is None:
                continue
            n += 1
            a = unparen(r["argument"])
            ok = False
            if a.get("type") == "ObjectExpression":
                for p_ in a["properties"]:
                    if p_["type"] == "KeyValueProperty" and tsast.prop_key(p_["key"]) in ("anyOf", "oneOf") and unparen(p_["value"]).get("type") == "ArrayExpression":
                        for e_ in unparen(p_["value"])["elements"]:
                            ee = unparen(e_["expression"]) if e_ else {}
                            if ee.get("type") == "ObjectExpression" and any(q_["type"] == "KeyValueProperty" and tsast.prop_key(q_["key"]) == "type" and unparen(q_["value"]).get("value") == "null" for q_ in ee["properties"]):
                                ok = True
            rep.ob(rid, "%s.schema/null-branch#%d" % (nm, n - 1), ok,
                   "%s.schema() has a return that is not a union with a `{type: 'null'}` branch (`%s`): the object class recognises an optional property by that branch, so the key stays in `required` and a document that omits the property - accepted by the validator - is invalid against the schema" % (nm, s(a)[:50]),
                   mod.loc(r), sample={"class": nm})
    rep.floor(rid, "returns of the optional-field wrapper's schema()", n, 1)


def _variant_defs(nodes, pattern):
    out = set()
    for x in nodes:
        if pattern and x["k"] in ("P.TupleStruct", "P.Struct", "P.Expr") and "Ctor(Variant" in (x.get("defkind") or "") + ("Ctor(Variant" if "::" in (x.get("def") or "") and x["k"] == "P.Struct" else ""):
            out.add(x["def"])
        if not pattern and x["k"] == "Path" and "Ctor(Variant" in (x.get("defkind") or ""):
            out.add(x["def"])
        if not pattern and x["k"] == "Struct" and (x.get("def") or "").count("::") >= 1:
            out.add(x["def"])
    return {d for d in out if d and not d.startswith("std::")}


def key_literal_inverse_rule(cx, rep, rid):
    """The dispatch table of a discriminated union is keyed by STRINGS read off the members' literal types, and the
    schema table narrows each variant's discriminator back to a literal TYPE built from the key.  Both tables describe
    the same values only if the two conversions are inverse: an extractor that also yields keys for other kinds of
    literal (the decimal form of a number) makes the rebuilt type a string literal where the validator expects the
    number - schemaWithContext() then prints `version: "1"` for a type whose validator demands 1.
    Decided over the printer functions around the builder of the discriminated form (its callers, their closures and
    private helpers): E = the functions Runtype -> Option<String> they call, N = the functions &str -> Runtype they
    call; every enum variant matched on a path of an E that yields `Some` is a variant some N constructs."""
    F = cx.rs
    from facts import walk as hwalk, walk_inlined
    cluster = [g for g, t in F.hir.items() if F.fns.get(g) is not None and "/src/print/" in (F.fns[g].file or "")]
    def sig(g):
        f = F.fns.get(g)
        return (tuple(f.inputs or ()), f.output or "") if f is not None else ((), "")
    Es, Ns = {}, {}
    for g in cluster:
        f = F.fns[g]
        for n in hwalk(F.hir[g]["body"]):
            if n["k"] not in ("Call", "MethodCall"):
                continue
            cal = n.get("callee") if n["k"] == "Call" else (n.get("resolved") or n.get("callee"))
            tg = F._callee_gid(f.crate, cal or "")
            if tg not in F.hir:
                continue
            ins, out = sig(tg)
            if len(ins) == 1 and ins[0].endswith("ast::runtype::Runtype") and ins[0].startswith("&") and out == "std::option::Option<std::string::String>":
                Es.setdefault(tg, []).append((g, n.get("line")))
            if len(ins) == 1 and ins[0] == "&str" and out.endswith("ast::runtype::Runtype"):
                Ns.setdefault(tg, []).append((g, n.get("line")))
    rep.floor(rid, "key extractors (Runtype -> Option<String>) used by the printer", len(Es), 1)
    if not Ns:
        return
    built = set()
    for ng in Ns:
        built |= _variant_defs([x for x, _o in walk_inlined(F, ng, depth=2)], pattern=False)
    def some_variants(g, depth=2, seen=None):
        """variants matched on a path of g that can yield Some"""
        seen = seen or {g}
        t = F.hir.get(g)
        out = set()
        if t is None:
            return out
        crate = F.fns[g].crate if g in F.fns else None
        def yields_some(body):
            for x in hwalk(body):
                if x["k"] == "Call" and (x.get("callee") or "").endswith("::Some"):
                    return True
                if x["k"] in ("Call", "MethodCall"):
                    cal = x.get("callee") if x["k"] == "Call" else (x.get("resolved") or x.get("callee"))
                    tg = F._callee_gid(crate, cal or "")
                    if tg in F.hir and sig(tg)[1].startswith("std::option::Option<") :
                        return True
                    if (cal or "").startswith("std::option::Option") and x["k"] == "MethodCall" and x.get("method") in ("map", "and_then", "filter", "cloned", "or_else", "or"):
                        return True
            return False
        def visit(n, ctx_vars):
            if n["k"] == "Match":
                for a in n["arms"]:
                    vs = _variant_defs(list(hwalk(a["pat"])), pattern=True)
                    if yields_some(a["body"]):
                        out.update(ctx_vars | vs)
                    visit_children(a["body"], ctx_vars | vs)
                return
            if n["k"] == "If" and n["cond"]["k"] == "Let":
                vs = _variant_defs(list(hwalk(n["cond"]["pat"])), pattern=True)
                if yields_some(n["then"]):
                    out.update(ctx_vars | vs)
                visit_children(n["then"], ctx_vars | vs)
                if n.get("else"):
                    visit_children(n["else"], ctx_vars)
                return
            visit_children(n, ctx_vars)
        def visit_children(n, ctx_vars):
            from facts import children
            for c in children(n):
                visit(c, ctx_vars)
        visit(t["body"], set())
        if depth > 0:
            for x in hwalk(t["body"]):
                if x["k"] in ("Call", "MethodCall"):
                    cal = x.get("callee") if x["k"] == "Call" else (x.get("resolved") or x.get("callee"))
                    tg = F._callee_gid(crate, cal or "")
                    if tg in F.hir and tg not in seen and sig(tg)[1] == "std::option::Option<std::string::String>":
                        seen.add(tg)
                        out.update(some_variants(tg, depth - 1, seen))
        return out
    for eg in sorted(Es):
        vs = some_variants(eg)
        extra = sorted(v for v in vs if v not in built)
        site = Es[eg][0]
        rep.ob(rid, "%s/inverse-of-key-constructor" % eg.rsplit("::", 1)[-1], not extra,
               "the printer reads discriminator keys with %s, which yields a key for %s, but rebuilds the literal type of a key with %s, which never constructs that: a key read from such a literal is narrowed back to a DIFFERENT literal type (a string where the validator expects the number), so the schema table of the discriminated union disagrees with its dispatch table" % (
                   eg, ", ".join(x.split("::", 2)[-1] for x in extra), " / ".join(sorted(x.rsplit("::", 1)[-1] for x in Ns))),
               F.fns[eg].loc(), sample={"extractor": eg, "some_on_variants": sorted(x.split("::", 2)[-1] for x in vs), "constructor_builds": sorted(x.split("::", 2)[-1] for x in built)})


def closed_tuple_schema_rule(fam, mod, rep, rid):
    """The validator of a tuple rejects every element beyond the prefix unless there is a rest element.  In JSON Schema
    that is `items: false` (after `prefixItems`); a returned schema without `items`, or with an `items` that can be
    `undefined` (the rest element read through `?.` without a `?? false`), accepts arrays of any length.
    Decided for the class whose constructor takes the prefix validators and an optional rest validator (fields typed
    `Runtype[]` and `Runtype | null`): every object literal its schema() returns (helpers folded in) has an `items`
    entry whose value - through local consts - is `false`, `<rest test> ? <rest schema> : false` or `<x> ?? false`."""
    n = 0
    for cname in sorted(fam.concrete()):
        flds = fam.all_fields(cname)
        arr = [f for f, (o, ann) in flds.items() if ann is not None and tsast.type_str(ann).replace(" ", "") in ("Runtype[]", "Array<Runtype>")]
        opt = [f for f, (o, ann) in flds.items() if ann is not None and tsast.type_str(ann).replace(" ", "") in ("Runtype|null", "null|Runtype", "Runtype|undefined", "Runtype|null|undefined")]
        _, m = fam.resolve_method(cname, "schema")
        if not arr or not opt or not m or m["function"].get("body") is None:
            continue
        fn = tsast.flatten_fn(mod, cname, m["function"])
        al = ts_common.local_aliases(fn)
        def closed(e, depth=0):
            e = unparen(e)
            t = e.get("type")
            if t == "BooleanLiteral":
                return e.get("value") is False
            if t == "ConditionalExpression":
                return closed(e["alternate"], depth) or closed(e["consequent"], depth)
            if t == "BinaryExpression" and e.get("operator") in ("??", "||"):
                return closed(e["right"], depth)
            if t == "Identifier" and e["value"] in al and depth < 4:
                return closed(al[e["value"]], depth + 1)
            if t in ("TsAsExpression", "TsNonNullExpression"):
                return closed(e["expression"], depth)
            return False
        for r in tsast.walk_no_nested_fn(fn["body"]):
            if r["type"] != "ReturnStatement" or r.get("argument") is None:
                continue
            objs = [o for o in walk(r["argument"]) if o["type"] == "ObjectExpression" and any(
                p_["type"] == "KeyValueProperty" and tsast.prop_key(p_["key"]) == "type" and unparen(p_["value"]).get("value") == "array" for p_ in o["properties"])]
            for o in objs:
                n += 1
                items = None
                for p_ in o["properties"]:
                    if p_["type"] == "KeyValueProperty" and tsast.prop_key(p_["key"]) == "items":
                        items = p_["value"]
                    elif p_["type"] == "Identifier" and p_["value"] == "items":
                        items = p_
                ok = items is not None and closed(items)
                rep.ob(rid, "%s.schema/items-closed#%d" % (cname, n - 1), ok,
                       "%s.schema() returns an array schema whose `items` is %s: without a rest element nothing forbids elements beyond the prefix, so `[1]` is valid against the schema of `[]` while validate() rejects it" % (
                           cname, "missing" if items is None else "`%s`, which is not `false` when there is no rest element" % s(items)[:60]),
                       mod.loc(o), sample={"class": cname, "items": s(items)[:80] if items is not None else None})
    rep.floor(rid, "array schemas returned by the tuple class", n, 1)
