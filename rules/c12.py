"""C12 — decode errors are present, bounded and point into the input.

C12.1  bounded: the errors of a failed safeParse come from `.slice(0, n)` with n <= 10
C12.2  the reporter mirrors the validator: every kind of rejection test in validate() has a counterpart in
       reportDecodeError() (unless the reporter unconditionally ends in an error)
C12.3  path discipline: pushPath / popPath pair up in the same block with no return in between; the union
       reporter restores the saved path
C12.4  rendering cannot throw (JSON.stringify on received values) - shared with C03.2
"""
import tsast
from tsast import walk, s, unparen, method_call
from rules import ts_common

LEVEL = "other"


def atoms(fn, inp):
    """kinds of tests applied to the input parameter inside fn"""
    out = set()
    for n in walk(fn):
        t = n["type"]
        if t == "BinaryExpression":
            l, r = unparen(n["left"]), unparen(n["right"])
            if l.get("type") == "UnaryExpression" and l["operator"] == "typeof" and s(l["argument"]) == inp and r.get("type") == "StringLiteral":
                out.add(("typeof", r["value"]))
            if n["operator"] == "instanceof" and s(l) == inp:
                out.add(("instanceof", s(r) if s(r)[0].isupper() else "<ctor>"))
            if n["operator"] in ("==", "!=", "===", "!==") and {s(l), s(r)} & {inp} and {s(l), s(r)} & {"null", "undefined"}:
                out.add(("nullish",))
            if n["operator"] in (">", "<", ">=", "<=", "===", "!==", "==", "!=") and (s(l) == inp + ".length" or s(r) == inp + ".length"):
                # comparisons of the input's length against something (loop bounds `i < input.length` excluded)
                other = r if s(l) == inp + ".length" else l
                if not (other.get("type") == "Identifier" and other["value"] in ("i", "j")):
                    # which way the length is bounded: a value may be rejected for being too SHORT, too LONG or not
                    # of the exact length - three different reasons, each needs its counterpart in the reporter
                    op = n["operator"]
                    if s(r) == inp + ".length":
                        op = {"<": ">", ">": "<", "<=": ">=", ">=": "<="}.get(op, op)
                    out.add(("length", "short" if op in ("<", "<=") else "long" if op in (">", ">=") else "exact"))
        if t == "CallExpression" and s(n["callee"]) == "Array.isArray" and n["arguments"] and s(n["arguments"][0]["expression"]) == inp:
            out.add(("isArray",))
        if t == "MemberExpression" and n["property"].get("value") == "disallowExtraProperties":
            out.add(("extra-keys",))
    return out


def run(cx, rep):
    fam = ts_common.Family(cx)
    mod = fam.mod
    rep.explanation = (
        "Rules over the swc AST: the facade slices the error list with a literal bound <= 10; per runtime class the kinds "
        "of tests validate() applies to the input (typeof, Array.isArray, instanceof, nullish, length comparison, strict "
        "extra keys) must reappear in reportDecodeError() unless the reporter always ends in an unconditional error, so a "
        "rejected value cannot yield an empty error list; pushPath/popPath are paired in the same block without an "
        "intervening return and the union reporter restores ctx.path; building and rendering errors never calls "
        "JSON.stringify on received values outside try/catch. Decides presence/boundedness/path-shape conditions; "
        "filtering by depth and determinism of rendering are not decided.")
    rep.trusted = ["swc AST"]
    # ---------------------------------------------------------------- C12.1
    rep.rule("C12.1", "at most ten errors")
    facade = [c for c in mod.classes.values() if "BeffParser" in c.implements and "safeParse" in c.methods]
    if len(facade) != 1:
        rep.anchor_missing("C12.1", "parser facade")
    else:
        sp = facade[0].methods["safeParse"]["function"]
        rde = [n for n in walk(sp) if n["type"] == "CallExpression" and method_call(n) and method_call(n)[1] == "reportDecodeError"]
        ok = False
        bound = None
        # the report may be named first (`const errors = rt.reportDecodeError(..)`): the name stands for the call when it
        # is a const that is used only as the receiver of the slice
        al = ts_common.local_aliases(sp)
        named = {}
        for k_, v_ in al.items():
            if rde and any(unparen(v_) is r for r in rde):
                decl_const = any(d["type"] == "VariableDeclaration" and d.get("kind") == "const" and any(x.get("id", {}).get("value") == k_ for x in d["declarations"]) for d in walk(sp))
                if decl_const:
                    named[k_] = unparen(v_)

        def is_report(e):
            e = unparen(e)
            if rde and any(e is r for r in rde):
                return next(r for r in rde if e is r)
            if e.get("type") == "Identifier" and e["value"] in named:
                return named[e["value"]]
            return None
        for n in walk(sp):
            if n["type"] == "CallExpression":
                mc = method_call(n)
                if mc and mc[1] == "slice" and rde and is_report(mc[0]) is rde[0] and len(mc[2]) == 2:
                    a0, a1 = unparen(mc[2][0]), unparen(mc[2][1])
                    consts = {k: v[1] for k, v in mod.vars.items() if v[1] is not None and unparen(v[1]).get("type") == "NumericLiteral"}
                    consts.update({k: v for k, v in ts_common.local_aliases(sp).items() if unparen(v).get("type") == "NumericLiteral"})
                    if a1["type"] == "Identifier" and a1["value"] in consts:
                        a1 = unparen(consts[a1["value"]])
                    if a0.get("type") == "NumericLiteral" and a0["value"] == 0 and a1.get("type") == "NumericLiteral":
                        bound = int(a1["value"])
                        ok = 1 <= bound <= 10
        # the sliced list is what is returned as `errors`
        rep.ob("C12.1", "slice", ok, "safeParse must return reportDecodeError(..).slice(0, n) with 1 <= n <= 10 (found bound %s)" % bound, mod.loc(sp), sample={"bound": bound})
        unsliced = [r for r in rde if not any(n["type"] == "CallExpression" and method_call(n) and method_call(n)[1] == "slice" and is_report(method_call(n)[0]) is r for n in walk(sp))]
        # a named report must not escape unsliced: every use of the name is the receiver of a slice
        for k_, r in named.items():
            uses = [x for x in walk(sp) if x.get("type") == "Identifier" and x.get("value") == k_]
            recv = [unparen(method_call(n)[0]) for n in walk(sp) if n["type"] == "CallExpression" and method_call(n) and method_call(n)[1] == "slice"]
            decl = [d["id"] for d in walk(sp) if d["type"] == "VariableDeclarator" and d["id"].get("value") == k_]
            # property names and type annotations are not uses of the binding
            decl += [x for d in walk(sp) if (d.get("type") or "").startswith("Ts") for x in walk(d) if x.get("type") == "Identifier"]
            decl += [d["key"] for d in walk(sp) if d["type"] == "KeyValueProperty"] + [d["property"] for d in walk(sp) if d["type"] == "MemberExpression" and d["property"].get("type") == "Identifier"]
            if any(not any(u is x for x in recv) and not any(u is x for x in decl) for u in uses):
                unsliced.append(r)
        rep.ob("C12.1", "no-unsliced-report", not unsliced, "safeParse returns an unsliced reportDecodeError result", mod.loc(sp))
    # ---------------------------------------------------------------- C12.2
    rep.rule("C12.11", "a reporter that delegates only to the members that reject has a branch for each rejection reason of its own")
    rep.rule("C12.2", "the reporter mirrors the validator's rejection tests")
    n_cls = 0
    for cname, c in sorted(fam.concrete().items()):
        v = c.methods.get("validate")
        r = c.methods.get("reportDecodeError")
        if not v or not r or v["function"].get("body") is None:
            continue
        n_cls += 1
        vin = ts_common.fn_params(v["function"])[1]
        rin = ts_common.fn_params(r["function"])[1]
        av = atoms(v["function"], vin)
        ar = atoms(r["function"], rin)
        # a reporter whose last statement is an unconditional `return buildError(...)` / union error always reports
        st = r["function"]["body"]["stmts"]
        last = st[-1] if st else None
        always = last is not None and last["type"] == "ReturnStatement" and last.get("argument") is not None and \
            s(last["argument"]).split("(")[0] in ("buildError", "buildUnionError")
        delegates = last is not None and last["type"] == "ReturnStatement" and method_call(last.get("argument") or {}) and method_call(last["argument"])[1] == "reportDecodeError"
        missing = set()
        for a in av:
            if a in ar:
                continue
            if a[0] == "typeof" and (("typeof", a[1]) in ar or always):
                continue
            if always or delegates:
                continue
            # typeof x === "object" in validate vs typeof x !== "object" in reporter are the same atom: handled by equality above
            missing.add(a)
        rep.ob("C12.2", cname, not missing,
               "%s.validate rejects on %s but %s.reportDecodeError has no corresponding test and does not end in an unconditional error: such a value is rejected with an empty error list" % (
                   cname, sorted(missing), cname), mod.loc(r), sample={"class": cname, "validate_tests": sorted(map(str, av)), "report_tests": sorted(map(str, ar)), "always_reports": bool(always)})
        # C12.11: a reporter that asks a child for its errors only when the child's own validate() fails reports nothing
        # for a value every child accepts - then each of the class's OWN rejection reasons needs a branch of its own
        cond_calls = []
        for n in walk(r["function"]):
            if n["type"] == "CallExpression" and method_call(n) and method_call(n)[1] == "reportDecodeError" and s(method_call(n)[0]) != "this":
                ka = ts_common.known_atoms(r["function"], n)
                if any(".validate(" in a_ for a_ in ka):
                    cond_calls.append(n)
        if cond_calls:
            own = {a for a in av if a not in ar and not (a[0] == "typeof" and ("typeof", a[1]) in ar) and a[0] != "child"}
            uncond = [n for n in walk(r["function"]) if n["type"] == "CallExpression" and method_call(n) and method_call(n)[1] == "reportDecodeError"
                      and s(method_call(n)[0]) != "this" and n not in cond_calls]
            rep.ob("C12.11", cname, not own or always or bool(uncond),
                   "%s.reportDecodeError asks its members for errors only when the member's own validate() fails, but %s.validate also rejects on %s, for which the reporter has no branch: a value every member accepts is rejected with an EMPTY error list" % (
                       cname, cname, sorted(map(str, own))), mod.loc(cond_calls[0]), sample={"class": cname, "own_reasons_without_branch": sorted(map(str, own))})
        # loops over the input: the reporter must not stop earlier than the validator
        def loop_tests(fn, inp):
            out = set()
            for n in walk(fn):
                if n["type"] == "ForStatement" and n.get("test") is not None and inp in s(n["test"]):
                    out.add(s(n["test"]))
                if n["type"] == "WhileStatement" and inp in s(n["test"]):
                    out.add(s(n["test"]))
            return out
        lv = {t.replace(vin, "$in") for t in loop_tests(v["function"], vin)}
        lr = {t.replace(rin, "$in") for t in loop_tests(r["function"], rin)}
        extra = lr - lv
        rep.ob("C12.2", "%s/loops" % cname, not (lv and extra),
               "%s.reportDecodeError walks the input with %s while validate() walks it with %s: positions the validator rejects are never reported" % (cname, sorted(extra), sorted(lv)),
               mod.loc(r), sample={"class": cname, "validate_loops": sorted(lv), "report_loops": sorted(lr)})
    rep.floor("C12.2", "classes with validate+report", n_cls, 18)
    # ---------------------------------------------------------------- C12.3
    rep.rule("C12.3", "path discipline")
    n_push = 0
    # the push/pop pairs may sit in methods of the classes or in module-level helpers they share (benign b94: four
    # copies of push / child.reportDecodeError / pushAll / pop became `reportChildErrors(ctx, acc, child, container,
    # key, pathSegment)`): both are walked, and for the floor a site in a shared helper stands for each of its call
    # sites (copies merged into one helper are still that many uses - as for C16.1 / C16.2)
    units = [(cname, mname, m["function"], "%s.%s" % (cname, mname)) for cname, c in sorted(mod.classes.items())
             for mname, m in sorted(c.methods.items()) if m["function"].get("body") is not None]
    units += [(None, fname, fn, fname) for fname, fn in sorted(mod.functions.items()) if fn.get("body") is not None]
    users = {}
    for c2, m2, fn2, _ in units:
        for x in walk(fn2):
            if x["type"] == "CallExpression":
                r_ = tsast.resolve_local_call(mod, c2, x)
                if r_ is not None and r_[0] is not fn2:
                    users[id(r_[0])] = users.get(id(r_[0]), 0) + 1
    for cname, mname, fn, ulabel in units:
        if True:
            for blk in [x for x in walk(fn) if x["type"] == "BlockStatement"]:
                st = blk["stmts"]
                depth = 0
                for i, sx in enumerate(st):
                    call = sx["expression"] if sx["type"] == "ExpressionStatement" else None
                    name = s(call["callee"]) if call and call["type"] == "CallExpression" else None
                    if name == "pushPath":
                        n_push += max(1, users.get(id(fn), 0))
                        depth += 1
                    elif name == "popPath":
                        depth -= 1
                        if depth < 0:
                            rep.ob("C12.3", "%s/pop-without-push" % ulabel, False, "popPath without a pushPath in the same block", mod.loc(sx))
                            depth = 0
                    elif depth > 0:
                        # a return/throw/continue/break while a key is pushed leaves the path dirty
                        esc = [x for x in tsast.walk_no_nested_fn(sx) if x["type"] in ("ReturnStatement", "ContinueStatement", "BreakStatement")]
                        # break/continue belonging to a loop nested inside sx are fine
                        esc = [x for x in esc if x["type"] == "ReturnStatement" or not any(l["type"] in ("ForOfStatement", "ForStatement", "ForInStatement", "WhileStatement") and any(y is x for y in walk(l)) for l in walk(sx))]
                        if esc:
                            rep.ob("C12.3", "%s/escape-while-pushed" % ulabel, False,
                                   "%s leaves the block between pushPath and popPath (%s): later errors carry a wrong path" % (ulabel, esc[0]["type"]), mod.loc(esc[0]))
                if depth != 0:
                    rep.ob("C12.3", "%s/unbalanced" % ulabel, False, "%s: pushPath without popPath in the same block" % ulabel, mod.loc(blk))
            # arrow callbacks with expression bodies are covered by the block walk above when they have block bodies
    rep.ob("C12.3", "balanced", True, sample={"pushPath_sites": n_push})
    rep.floor("C12.3", "pushPath sites", n_push, 12)
    # inside a push(k) region the reported value is input[k]
    # (a region that moved into a local helper is judged at each call site of the helper inside a reporter, with the
    # arguments in place of the parameters - `reportChildErrors(ctx, acc, this.properties[k], input, k, k)` is the
    # region push(k) .. this.properties[k].reportDecodeError(ctx, input[k]) .. pop; a path key that is still a
    # parameter there, because the argument is computed (`[${i}]`), is no more judged than a computed key written in
    # place)
    regions = []   # (class, method, input name, node to scan, names that are not keys of the input)
    for cname, mname, fn in ts_common.family_methods(fam, ("reportDecodeError",)):
        inp = ts_common.fn_params(fn)[1]
        regions.append((cname, mname, inp, fn, set()))
        for x in walk(fn):
            r_ = tsast.resolve_local_call(mod, cname, x) if x["type"] == "CallExpression" else None
            if r_ is None or r_[0] is fn or not any(y["type"] == "CallExpression" and s(y["callee"]) == "pushPath" for y in walk(r_[0])):
                continue
            body_, sub_ = tsast.inline_clone(r_[0], x)
            regions.append((cname, mname, inp, body_, {p_ for p_ in ts_common.fn_params(r_[0]) if p_ and p_ not in sub_}))
    for cname, mname, inp, fn, unbound in regions:
        for blk in [x for x in walk(fn) if x["type"] == "BlockStatement"]:
            st = blk["stmts"]
            for i, sx in enumerate(st):
                call = sx["expression"] if sx["type"] == "ExpressionStatement" else None
                if call and call["type"] == "CallExpression" and s(call["callee"]) == "pushPath" and len(call["arguments"]) == 2:
                    key = unparen(call["arguments"][1]["expression"])
                    if key["type"] != "Identifier" or key["value"] in unbound:
                        continue
                    k = key["value"]
                    for sj in st[i + 1:]:
                        cj = sj["expression"] if sj["type"] == "ExpressionStatement" else None
                        if cj and cj["type"] == "CallExpression" and s(cj["callee"]) == "popPath":
                            break
                        for x in walk(sj):
                            if x["type"] == "CallExpression" and method_call(x) and method_call(x)[1] == "reportDecodeError" and len(method_call(x)[2]) == 2:
                                got = s(method_call(x)[2][1])
                                okv = got in ("%s[%s]" % (inp, k), k) or got.endswith("[%s]" % k)
                                rep.ob("C12.3", "%s.%s/received-at-%s" % (cname, mname, k), okv,
                                       "%s.%s reports under path key `%s` but passes `%s` as the value found there" % (cname, mname, k, got), mod.loc(x))
    anyof = [(cn, fn) for cn, mn, fn in ts_common.family_methods(fam, ("reportDecodeError",))
             if any(n["type"] == "AssignmentExpression" and s(n["left"]).endswith(".path") for n in walk(fn))]
    for cn, fn in anyof:
        assigns = [n for n in walk(fn) if n["type"] == "AssignmentExpression" and s(n["left"]).endswith(".path")]
        saved = [k for k, v in ts_common.local_aliases(fn).items() if s(v).endswith(".path")]
        ok = len(assigns) == 2 and saved and s(assigns[1]["right"]) == saved[0] and not [r for r in tsast.walk_no_nested_fn(fn["body"]) if r["type"] == "ReturnStatement" and r["span"]["start"] < assigns[1]["span"]["start"]]
        rep.ob("C12.3", "%s/restores-path" % cn, bool(ok), "%s.reportDecodeError must restore the saved ctx.path before its only exit" % cn, mod.loc(fn))
    # ---------------------------------------------------------------- C12.4
    # ---------------------------------------------------------------- C12.5
    rep.rule("C12.5", "branch errors of a union error stay relative to it")
    # A union error carries the errors of its branches with paths RELATIVE to its own position (the union reporter
    # resets ctx.path for its branches, the printer joins the paths on the way down).  Moving an error somewhere else
    # (an object literal that spreads an existing error and overrides `path`) must therefore leave `errors` alone: a
    # re-based copy of the branch errors points at positions that do not exist in the input.
    n_rebase = 0
    for owner, fn in [(k, v) for k, v in mod.functions.items()] + [("%s.%s" % (cn, mn), mm["function"]) for cn, c in mod.classes.items() for mn, mm in c.methods.items()]:
        if fn.get("body") is None:
            continue
        for o in walk(fn):
            if o["type"] != "ObjectExpression":
                continue
            spreads = [p_ for p_ in o["properties"] if p_["type"] == "SpreadElement"]
            keys = {tsast.prop_key(p_["key"]) for p_ in o["properties"] if p_["type"] == "KeyValueProperty"}
            # (a shorthand member `{ ...err, path }` - benign b115 - is an Identifier node among the properties)
            keys |= {p_["value"] for p_ in o["properties"] if p_["type"] == "Identifier"}
            if spreads and "path" in keys:
                n_rebase += 1
                rep.ob("C12.5", "%s/rebase" % owner, "errors" not in keys,
                       "%s moves an error (spread + new `path`) and rewrites its nested `errors` as well: branch errors are relative to the union error, so they now address positions that are not in the input" % owner,
                       mod.loc(o), sample={"fn": owner, "overrides": sorted(keys)})
    rep.floor("C12.5", "error re-basing sites", n_rebase, 1)
    rep.rule("C12.4", "building and rendering errors cannot throw")
    n = 0
    for m2, rel in ((mod, ts_common.CODEGEN), (cx.ts("packages/beff-client/src/err.ts"), "err.ts")):
        fns = [(k, v) for k, v in m2.functions.items()] + [(k, v[1]) for k, v in m2.vars.items() if v[1] is not None and v[1]["type"] in ("ArrowFunctionExpression", "FunctionExpression")]
        for fname, fnode in fns:
            if rel != "err.ts" and fname not in ("deduplicateErrors", "buildUnionError", "buildError", "prependPath", "maxErrorDepth"):
                continue
            n += 1
            T = ts_common.taint(fnode, {p for p in ts_common.fn_params(fnode) if p})
            for c in walk(fnode):
                if c["type"] == "CallExpression" and s(c["callee"]) == "JSON.stringify" and c["arguments"] and T.mentions(c["arguments"][0]["expression"]) \
                        and not ts_common.in_try_with_handler(fnode, c):
                    rep.ob("C12.4", "%s/json-stringify" % fname, False,
                           "%s calls JSON.stringify on (a record containing) the received value outside try/catch: a rejected bigint makes error building/printing throw" % fname, m2.loc(c))
    rep.ob("C12.4", "scan", True, sample={"error_helpers_scanned": n})
    rep.floor("C12.4", "error helpers scanned", n, 8)
    # ---------------------------------------------------------------- C12.6
    rep.rule("C12.6", "reportDecodeError() reads every constructor argument it read on the reviewed tree")
    ts_common.field_matrix_rule(cx, rep, "C12.6", ['reportDecodeError'])
    # ---------------------------------------------------------------- C12.7
    rep.rule("C12.7", "reportDecodeError(): every element of an array-valued constructor argument is accounted for (no fixed-size prefix)")
    ts_common.truncation_rule(cx, rep, "C12.7", ['reportDecodeError'])
    # ---------------------------------------------------------------- C12.12 (= C11.2 + C03.2)
    # a reporter that decides "is this key declared?" by another predicate than validate() reports nothing for the keys
    # the two disagree on: the rejected value comes back with an empty error list
    rep.rule("C12.12", "reporters tell declared from undeclared keys exactly as validate does: by the class's own declared-key list, never by `in` / a lookup on a dictionary with a prototype (= C11.2, C03.2)")
    from rules.c01 import lifted_rules
    lifted_rules(cx, rep, "C12.12", (("rules.c11", "C11.2"), ("rules.c03", "C03.2")))
    # ---------------------------------------------------------------- C12.10
    rep.rule("C12.10", "rendering errors never converts a value of unknown type to a string implicitly where it can be a symbol or an object (= C03.16)")
    ts_common.implicit_to_string_rule(cx, rep, "C12.10")
    # ---------------------------------------------------------------- C12.9
    rep.rule("C12.9", "collecting errors never spreads an input-sized list into call arguments (= C03.11)")
    ts_common.unbounded_spread_rule(cx, rep, "C12.9", ['reportDecodeError'])
    # ---------------------------------------------------------------- C12.8
    rep.rule("C12.8", "reportDecodeError() looks at every index of an input array (no hole-skipping walk of the input)")
    ts_common.hole_skipping_rule(cx, rep, "C12.8", ['reportDecodeError'])
