"""C04 — compilation is total: code or located diagnostics, never a panic or a hang.

C04.1  census of reachable diverging sites (multiset may shrink, not grow; every entry reviewed)
C04.2  no panicking arm on an input-shaped enum (swc AST, binding tables)
C04.3a recursion through user-controlled tables is cut by a visited/memo mark
C04.3b condition-driven loops write a dependency of their exit condition on every back-edge path
C04.4  diagnostics are built in one place from one file value
"""
import collections
import os
import json
import re
from entry import reachable
from facts import walk, strip_block, is_panic_macro_node, WASM
from mirflow import FnFlow, Origins, op_place, op_local

LEVEL = "other"

PANIC_KINDS = ("unreachable", "panic", "todo", "unimplemented", "assert", "assert_eq", "assert_ne")
UNWRAPS = re.compile(r"^std::(option::Option::<T>|result::Result::<T, E>)::(unwrap|expect|unwrap_err|expect_err)$")
STD_PANICKERS = re.compile(
    r"^(std::vec::Vec::<T, A>::(remove|swap_remove|insert|split_off|drain)|"
    r"std::string::String::(remove|insert|insert_str|split_off|drain|truncate|replace_range)|"      # truncate / replace_range: byte offsets must be char boundaries
    r"std::vec::Vec::<T, A>::(splice|extend_from_within)|core::slice::<impl \[T\]>::(chunks_exact|rchunks|copy_within|select_nth_unstable)|"
    r"core::str::<impl str>::split_at_mut|core::char::methods::<impl char>::(to_digit|from_digit)|core::char::from_digit|"
    r"core::slice::<impl \[T\]>::(split_at|split_at_mut|copy_from_slice|clone_from_slice|swap|chunks|windows|rotate_left|rotate_right)|"
    r"core::str::<impl str>::split_at|std::cell::RefCell::<T>::(borrow|borrow_mut)|"
    r"std::iter::Iterator::step_by|std::collections::VecDeque::<T, A>::(remove|swap))$")


def type_head(t):
    t = re.sub(r"^&(?:'\w+ )?(?:mut )?", "", t or "")
    m = re.match(r"^([\w:]+)", t)
    if t.startswith("["):
        return "[T]"
    return m.group(1) if m else t[:30]


def norm_kind(k):
    """`assert!(cond, msg)` is `if !cond { panic!(msg) }`: one class, whichever way it is spelled"""
    return "panic" if k in ("assert", "assert_eq", "assert_ne", "debug_assert", "debug_assert_eq", "debug_assert_ne") else k


def hir_panic_index(tree):
    """[(line, kind, msg)] for panic-family macro expansions in a HIR tree"""
    out = []
    stack = [tree]
    while stack:
        n = stack.pop()
        if isinstance(n, list):
            stack.extend(n)
            continue
        if not isinstance(n, dict):
            continue
        mac = n.get("mac") or []
        kinds = [m for m in mac if m in PANIC_KINDS]
        if "k" in n and kinds:
            msg = ""
            for x in walk(n):
                if x["k"] == "Lit" and x.get("lit") == "str" and x.get("v"):
                    msg = x["v"]
                    break
            out.append((n["line"], norm_kind(kinds[-1]), msg))
            continue  # outermost only
        stack.extend(n.values())
    return out


def diverging_sites(F, fns):
    """yield dict(kind, msg, ctx, fn, file, line) for every diverging site in the given functions"""
    hir_idx = {}
    for g in sorted(fns):
        f = F.fns[g]
        if not f.mir:
            continue
        root = f.root or f.id
        for c in f.calls:
            kinds = [m for m in c.macros if m in PANIC_KINDS]
            p = c.path or ""
            if kinds and (p.startswith("core::panicking::") or p.startswith("std::rt::") or p.startswith("std::panicking::")):
                if root not in hir_idx:
                    hir_idx[root] = hir_panic_index(F.hir.get(root, {}))
                msg = ""
                for (ln, k, m) in hir_idx[root]:
                    if ln == c.line and k == norm_kind(kinds[-1]):
                        msg = m
                        break
                yield dict(kind=norm_kind(kinds[-1]), msg="", info=msg, ctx=owner_of(F, f), fn=f, file=c.file, line=c.line)
            elif UNWRAPS.match(p) and not c.macros:
                msg = ""
                if p.endswith("expect") or p.endswith("expect_err"):
                    a = c.term["args"][1] if len(c.term["args"]) > 1 else None
                    if a and a.get("k") == "const":
                        msg = (a.get("v") or "").strip('"')
                    elif a:
                        # &'static str through a temp
                        fl = FnFlow(f)
                        for o in Origins(fl).of_operand(a):
                            if o[0] == "const" and isinstance(o[1], str) and o[1].startswith('"'):
                                msg = o[1].strip('"')
                # keyed by the receiver's payload type (the message may be a literal, a constant, a format...)
                yield dict(kind=p.rsplit("::", 1)[-1], msg="", ctx=type_head(c.targs[0]) if c.targs else "", info=msg,
                           fn=f, file=c.file, line=c.line)
            elif UNWRAPS.match(p) and c.macros:
                # unwrap/expect inside a foreign macro expansion (e.g. lazy_static, thread_local): census by macro
                yield dict(kind=p.rsplit("::", 1)[-1], msg="", ctx="macro:" + c.macros[-1], fn=f, file=c.file, line=c.line)
            elif (c.trait in ("std::ops::Index", "std::ops::IndexMut")) and not c.macros:
                # one class for `v[i]` whether the container is a Vec (Index::index call) or a slice/array (a MIR
                # bounds assertion): the same failure, whichever type a refactoring gives the parameter
                it = type_head(c.targs[1] if len(c.targs) > 1 else "")
                if "Range" in it and range_slice_in_bounds(F, root, c.line):
                    continue    # locally discharged: v[a..b] with b = max(v.len(), a) and v padded up to b
                yield dict(kind="index", msg="", ctx="[range]" if "Range" in it else "[%s]" % it, fn=f, file=c.file, line=c.line)
            elif STD_PANICKERS.match(p) and not c.macros:
                # keyed by the file, like panics: the receiver is often a private type that may be renamed
                yield dict(kind="std:" + p.rsplit("::", 1)[-1], msg="", ctx=owner_of(F, f), fn=f, file=c.file, line=c.line)
        for bi, b in enumerate(f.mir["blocks"]):
            t = b["term"]
            if t["k"] == "Assert" and t["msg"] == "BoundsCheck" and not t.get("macros"):
                yield dict(kind="index", msg="", ctx="[usize]", fn=f, file=t.get("file"), line=t.get("line"))
            elif t["k"] == "Assert" and t["msg"] in ("DivisionByZero", "RemainderByZero") and not t.get("macros"):
                # `x / 2`: the check compares a non-zero CONSTANT divisor with 0 and can never fire
                cl = (t.get("cond") or {}).get("place", {}).get("l")
                const_nonzero = False
                for b2 in f.mir["blocks"]:
                    for st in b2["stmts"]:
                        if st["k"] == "Assign" and st["place"]["l"] == cl and not st["place"]["p"] and st["rv"]["k"] == "BinaryOp" and st["rv"]["op"] == "Eq":
                            a_, b_ = st["rv"]["a"], st["rv"]["b"]
                            if a_.get("k") == "const" and b_.get("k") == "const" and re.match(r"^0_", str(b_.get("v"))) and not re.match(r"^0_", str(a_.get("v"))):
                                const_nonzero = True
                if const_nonzero:
                    continue
                yield dict(kind="assert:" + t["msg"], msg="", ctx=owner_of(F, f), fn=f, file=t.get("file"), line=t.get("line"))


def range_slice_in_bounds(F, gid, line):
    """`v[a..b]` cannot panic when b was computed as max(v.len(), a) for the same v and a, v is extended over
    (v.len()..b) before the slice is taken, and nothing shortens v in the function: then a <= b <= v.len()."""
    tree = F.hir.get(gid)
    if tree is None:
        return False
    lets = {n["pat"].get("lid"): n["init"] for n in walk(tree["body"]) if n["k"] == "LetStmt" and n["pat"]["k"] == "P.Binding" and n.get("init") is not None}
    def lid(e):
        while isinstance(e, dict) and e.get("k") in ("AddrOf", "Deref", "DropTemps"):
            e = e["e"]
        return e.get("lid") if isinstance(e, dict) and e.get("k") == "Path" and e.get("res") == "local" else None
    def len_of(e):
        while isinstance(e, dict) and e.get("k") in ("AddrOf", "Deref", "DropTemps"):
            e = e["e"]
        return lid(e["recv"]) if isinstance(e, dict) and e.get("k") == "MethodCall" and e.get("method") == "len" else None
    idx = [n for n in walk(tree["body"]) if n["k"] == "Index" and n.get("line") == line and n["i"].get("k") == "Struct" and "Range" in (n["i"].get("def") or "")]
    if not idx:
        return False
    for n in idx:
        v = lid(n["e"])
        fl = {x.get("name"): x.get("e") for x in n["i"].get("fields", [])}
        a, b = lid(fl.get("start")), lid(fl.get("end"))
        if v is None or a is None or b is None or b not in lets:
            return False
        # second idiom (b105): trimming by search - a = v.iter().position(p).unwrap_or(v.len()),
        # b = v.iter().rposition(p).map_or(a, |i| i + 1): a <= b <= v.len() (no match at all gives a = b = len; a match at
        # i gives a <= i < b = i + 1 <= len), provided nothing shortens v
        def search_on_v(e, which):
            e = e if isinstance(e, dict) else {}
            if e.get("k") != "MethodCall" or e.get("method") != which:
                return False
            it = e["recv"]
            return it.get("k") == "MethodCall" and it.get("method") == "iter" and lid(it["recv"]) == v
        ia, ib = lets.get(a), lets[b]
        trim = (isinstance(ia, dict) and ia.get("k") == "MethodCall" and ia.get("method") == "unwrap_or" and search_on_v(ia["recv"], "position")
                and ia.get("args") and len_of(ia["args"][0]) == v
                and ib.get("k") == "MethodCall" and ib.get("method") == "map_or" and search_on_v(ib["recv"], "rposition")
                and len(ib.get("args") or []) == 2 and lid(ib["args"][0]) == a and ib["args"][1].get("k") == "Closure"
                and any(z["k"] == "Binary" and z.get("op") == "Add" and any(w["k"] == "Lit" and str(w.get("v")) == "1" for w in walk(z)) for z in walk(ib["args"][1])))
        if trim:
            if any(x["k"] == "MethodCall" and lid(x.get("recv")) == v and x.get("method") in ("truncate", "pop", "clear", "drain", "remove", "swap_remove", "retain", "split_off") for x in walk(tree["body"])):
                return False
            continue
        init = lets[b]
        ok_max = False
        if init.get("k") == "Call" and (init.get("callee") or "").endswith("cmp::max") and len(init["args"]) == 2:
            xs = init["args"]
            ok_max = (len_of(xs[0]) == v and lid(xs[1]) == a) or (len_of(xs[1]) == v and lid(xs[0]) == a)
        if init.get("k") == "MethodCall" and init.get("method") == "max" and init.get("args"):
            ok_max = (len_of(init["recv"]) == v and lid(init["args"][0]) == a) or (lid(init["recv"]) == a and len_of(init["args"][0]) == v)
        if not ok_max:
            return False
        padded = False
        for x in walk(tree["body"]):
            if x["k"] == "MethodCall" and lid(x.get("recv")) == v:
                if x.get("method") in ("truncate", "pop", "clear", "drain", "remove", "swap_remove", "retain", "split_off"):
                    return False
                if x.get("method") == "extend" and x.get("args") and (x.get("line") or 0) < line:
                    rng = next((s_ for s_ in walk(x["args"][0]) if s_["k"] == "Struct" and "Range" in (s_.get("def") or "")), None)
                    if rng is not None and not any(y["k"] == "MethodCall" and y.get("method") in ("filter", "filter_map", "skip", "take", "step_by", "take_while", "skip_while", "flat_map") for y in walk(x["args"][0])):
                        f2 = {y.get("name"): y.get("e") for y in rng.get("fields", [])}
                        if len_of(f2.get("start")) == v and lid(f2.get("end")) == b:
                            padded = True
        if not padded:
            return False
    return True


def owner_of(F, f):
    """crate of the enclosing function (never the function, type or file name: moving a site between a method and a
    free function, or into another module file, is not a new site)"""
    r = F.fns.get(f.root) if f.root else f
    r = r or f
    fl = r.file or ""
    m = re.search(r"packages/([\w-]+)/src/", fl)
    return m.group(1) if m else fl


def site_key(s):
    return "%s|%s|%s" % (s["kind"], s["msg"], s["ctx"])


def arm_is_panic(body):
    n = strip_block(body)
    if is_panic_macro_node(n):
        return True
    if n.get("k") == "BlockExpr":
        b = n["block"]
        items = list(b["stmts"]) + ([b["expr"]] if b["expr"] else [])
        if len(items) == 1:
            it = items[0]
            if it.get("k") in ("Semi", "ExprStmt"):
                it = it["e"]
            return is_panic_macro_node(strip_block(it))
    return False


def pat_variants(pat):
    k = pat["k"]
    if k == "P.Or":
        out = []
        for p in pat["pats"]:
            out += pat_variants(p)
        return out
    if k in ("P.Ref", "P.Box", "P.Deref"):
        return pat_variants(pat["sub"])
    if k == "P.Binding" and pat.get("sub"):
        return pat_variants(pat["sub"])
    if pat.get("def"):
        return [pat["def"]]
    if k in ("P.Wild", "P.Binding"):
        return ["_"]
    return ["?"]


def input_shaped(F, adt):
    """enums that mirror user input: any swc AST enum, and beff's binding tables (module swc_tools)"""
    if adt is None:
        return False
    if adt.startswith("swc_"):
        return True
    a = F.adts.get(adt)
    return bool(a and a["kind"] == "Enum" and "/swc_tools/" in a["file"])


def panicking_arms(F, trees):
    for gid, tree in trees:
        for n in walk(tree):
            if n["k"] != "Match":
                continue
            adt = n.get("scrut_adt")
            for a in n["arms"]:
                if arm_is_panic(a["body"]):
                    yield gid, n, a, adt


# ---------------------------------------------------------------------------
# loops

def natural_loops(flow):
    dom = flow.dominators()
    preds = flow.preds()
    loops = {}
    for u in dom:
        for h in flow.succ(u):
            if h in dom.get(u, ()):
                # back edge u -> h
                body = {h}
                work = [u]
                while work:
                    x = work.pop()
                    if x in body:
                        continue
                    body.add(x)
                    work.extend(p for p in preds[x] if p in dom)
                loops.setdefault(h, set()).update(body)
    return loops


def loop_verdict(F, f, flow, h, body):
    """-> (kind, ok, detail)"""
    blocks = flow.blocks
    # exit conditions
    exits = []
    for b in body:
        t = blocks[b]["term"]
        succ = flow.succ(b)
        if any(s not in body for s in succ) or t["k"] == "Return":
            exits.append(b)
    # defs inside the loop
    defs_in = collections.defaultdict(list)
    for b in body:
        for st in blocks[b]["stmts"]:
            if st["k"] == "Assign":
                defs_in[st["place"]["l"]].append((b, st))
        t = blocks[b]["term"]
        if t["k"] == "Call":
            defs_in[t["dest"]["l"]].append((b, t))
    # dependency closure of exit discriminants, following only in-loop defs
    D = set()
    calls_in_dep = []
    work = []
    for b in exits:
        t = blocks[b]["term"]
        if t["k"] == "SwitchInt":
            pl = op_place(t["discr"])
            if pl:
                work.append(pl["l"])
    if not work:
        return "no-conditional-exit", None, "loop has no conditional exit"
    while work:
        l = work.pop()
        if l in D:
            continue
        D.add(l)
        for (b, d) in defs_in.get(l, ()):
            if d["k"] == "Call":
                calls_in_dep.append(d)
                for a in d["args"]:
                    pl = op_place(a)
                    if pl:
                        work.append(pl["l"])
            else:
                rv = d["rv"]
                for key in ("op", "a", "b"):
                    if isinstance(rv.get(key), dict):
                        pl = op_place(rv[key])
                        if pl:
                            work.append(pl["l"])
                if rv.get("place"):
                    work.append(rv["place"]["l"])
                    for p in rv["place"]["p"]:
                        if p.startswith("[_"):
                            work.append(int(p[2:-1]))
                for o in rv.get("ops", []):
                    pl = op_place(o)
                    if pl:
                        work.append(pl["l"])
    for d in calls_in_dep:
        m = (d["callee"].get("path") or "").rsplit("::", 1)[-1]
        if m in ("next", "next_back"):
            return "iterator-driven", True, "exit depends on %s" % d["callee"].get("path")
    # roots: dependency locals that have a definition outside the loop (or are parameters)
    argc = flow.mir["arg_count"]
    all_defs = collections.defaultdict(int)
    for bi, b in enumerate(blocks):
        if bi in body:
            continue
        for st in b["stmts"]:
            if st["k"] == "Assign":
                all_defs[st["place"]["l"]] += 1
        t = b["term"]
        if t["k"] == "Call":
            all_defs[t["dest"]["l"]] += 1
    roots = {l for l in D if all_defs.get(l) or 1 <= l <= argc}
    if not roots:
        return "condition-driven", False, "exit condition depends on no loop-carried variable"
    # aliases: &mut borrows (and re-borrows / moves of them) of roots taken inside the loop
    mut_alias = {}
    changed = True
    while changed:
        changed = False
        for b in body:
            for st in blocks[b]["stmts"]:
                if st["k"] != "Assign" or st["place"]["p"] or st["place"]["l"] in mut_alias:
                    continue
                rv = st["rv"]
                src = None
                if rv["k"] == "Ref" and rv.get("mut"):
                    src = rv["place"]["l"]
                elif rv["k"] == "Use" and rv["op"].get("k") == "move" and not rv["op"]["place"]["p"]:
                    src = rv["op"]["place"]["l"] if rv["op"]["place"]["l"] in mut_alias else None
                if src is not None and (src in roots or src in mut_alias):
                    mut_alias[st["place"]["l"]] = src
                    changed = True
    writers = set()
    for b in body:
        for st in blocks[b]["stmts"]:
            if st["k"] == "Assign" and st["place"]["l"] in roots:
                # re-borrows / temporaries of the root itself are not writes of a new value
                writers.add(b)
        t = blocks[b]["term"]
        if t["k"] == "Call":
            if t["dest"]["l"] in roots:
                writers.add(b)
            for a in t["args"]:
                pl = op_place(a)
                if pl and pl["l"] in mut_alias:
                    writers.add(b)
    # is there a cycle h -> ... -> h inside the loop avoiding writer blocks?
    if h in writers:
        return "condition-driven", True, "header writes a dependency"
    seen = set()
    work = [s for s in flow.succ(h) if s in body]
    while work:
        b = work.pop()
        if b == h:
            names = [flow.mir["locals"][l].get("name") or "_%d" % l for l in sorted(roots)]
            return "condition-driven", False, "a path from the loop header back to itself writes none of the exit condition's variables %s" % names
        if b in seen or b in writers or b not in body:
            continue
        seen.add(b)
        work.extend(flow.succ(b))
    return "condition-driven", True, "every back-edge path writes one of %s" % sorted(roots)


# ---------------------------------------------------------------------------
# recursion

LOOKUPS = re.compile(
    r"(std::collections::(BTreeMap|HashMap)::<K, V(, [AS])*>::(get|get_mut|remove)$|FileManager::(get_or_fetch_file|get_existing_file)$|"
    r"::get_or_fetch_file$|::get_existing_file$|(^std::iter::|Iterator>::)(find|find_map|position)$)")
MARKS = re.compile(r"std::collections::(BTreeMap|HashMap|BTreeSet|HashSet)::<[^>]*>::(insert|contains|contains_key)$")


def keyed_search(F, f):
    """hand-written linear search: a `for` loop over a collection reached from self / a parameter whose body
    returns (a part of) the element under `if <element part> == <parameter>`"""
    tree = F.hir.get(f.id)
    if tree is None:
        return False
    plids = {x.get("lid") for p in tree["params"] for x in walk(p) if x["k"] == "P.Binding"}

    def lids(e):
        return {x.get("lid") for x in walk(e) if x["k"] == "Path" and x.get("res") == "local"}
    for m in walk(tree["body"]):
        if m["k"] != "Match" or m.get("src") != "ForLoopDesugar" or not (m.get("scrut_adt") or "").endswith("Option"):
            continue
        for a in m["arms"]:
            elem = {x.get("lid") for x in walk(a["pat"]) if x["k"] == "P.Binding"}
            if not elem:
                continue
            for i in walk(a["body"]):
                if i["k"] != "If":
                    continue
                conds = [b for b in walk(i["cond"]) if b["k"] == "Binary" and b["op"] == "Eq"]
                keyed = any((lids(b["l"]) & elem and lids(b["r"]) & plids) or (lids(b["r"]) & elem and lids(b["l"]) & plids) for b in conds)
                if keyed and any(r["k"] == "Ret" and lids(r) & elem for r in walk(i["then"])):
                    return True
    return False


def not_residual(ty):
    """value provenance does not run through the error half of `?` (a Result<Infallible, E> carries no payload)"""
    return not re.match(r"^(&(mut )?)?std::result::Result<std::convert::Infallible,", ty or "") and not re.match(r"^(&(mut )?)?std::option::Option<std::convert::Infallible>", ty or "")


def lookup_returning(F, fns):
    """least fixpoint: local functions whose return value may derive from a table lookup
    (directly or through another such function)"""
    R = {}
    flows = {}
    changed = True
    while changed:
        changed = False
        for g in sorted(fns):
            if g in R:
                continue
            f = F.fns[g]
            if not f.mir:
                continue
            # error builders (`fn error<T>(..) -> Result<T, Diag>`): whatever they look up ends in the Err half,
            # the generic Ok payload is never produced
            if (f.output or "").startswith("std::result::Result<") and g in F.hir:
                body_ = F.hir[g]["body"]
                ctor = [x.get("callee") or "" for x in walk(body_) if x["k"] == "Call"]
                other_results = [x for x in walk(body_) if x["k"] in ("Call", "MethodCall") and "Result<" in (x.get("ty") or "")
                                 and not (x.get("callee") or "").endswith(("::Err", "::Ok"))]
                if any(c.endswith("::Err") for c in ctor) and not any(c.endswith("::Ok") for c in ctor) and not other_results:
                    continue
            if g not in flows:
                fl = FnFlow(f)
                flows[g] = Origins(fl, keep=not_residual).of_local(0)
            for o in sorted(flows[g], key=repr):
                if o[0] != "call":
                    continue
                if LOOKUPS.search(o[1]):
                    R[g] = o[1]
                    changed = True
                    break
                if re.search(r"Iterator(>)?::next$", o[1]) and keyed_search(F, f):
                    # hand-written linear search: returns an element of an iterated collection, selected by
                    # comparing against a parameter
                    R[g] = "linear search keyed by a parameter (%s)" % o[1]
                    changed = True
                    break
                tg = F._callee_gid(f.crate, o[1])
                if tg in R and tg != g:
                    R[g] = "%s (via %s)" % (R[tg].split(" (via")[0], strip_generics(tg))
                    changed = True
                    break
    return R


SCALAR = re.compile(r"^(bool|\(\)|usize|u32|u64|i64|i32|isize|f64|std::string::String|&str|subtyping::(?:semtype::)?IsEmptyStatus|subtyping::subtype::SubtypeCheck\w*)$")


def scalar_output(f):
    """functions that return no structure (bool / unit / numbers / strings, possibly inside Result/Option)"""
    t = f.output or ""
    while True:
        m = re.match(r"^std::(?:result::Result|option::Option)<(.*)>$", t)
        if not m:
            break
        inner = m.group(1)
        # first generic argument
        depth = 0
        for i, ch in enumerate(inner):
            if ch == "<":
                depth += 1
            elif ch == ">":
                depth -= 1
            elif ch == "," and depth == 0:
                inner = inner[:i]
                break
        t = inner.strip()
    return bool(SCALAR.match(t))


def find_lookup(F, f, O, operand, R, depth=0):
    """origin of the operand that is a lookup (direct, through a lookup-returning local function, or
    through a closure parameter fed by a higher-order call on a looked-up value)"""
    org = O.of_operand(operand)
    for o in sorted(org, key=repr):      # deterministic choice of the reported lookup
        if o[0] == "call":
            if LOOKUPS.search(o[1]):
                return o[1]
            tg = F._callee_gid(f.crate, o[1])
            if tg in R:
                return R[tg]
    if f.kind == "Closure" and depth < 3 and any(o[0] == "param" and o[1] >= 2 for o in org):
        # closure parameter: look at the receiver of the higher-order call the closure is handed to
        for p in F.fns.values():
            if p.mir and f.id in F.edges.get(p.id, ()):
                pflow = FnFlow(p)
                PO = Origins(pflow)
                for c in p.calls:
                    for ai, a in enumerate(c.term["args"]):
                        l = op_local(a)
                        if l is None or ai == 0:
                            continue
                        for _, d in pflow.defs_of(l):
                            rv = d.get("rv")
                            if rv and rv["k"] == "Aggregate" and rv.get("agg") == "Closure" and F._callee_gid(p.crate, rv["closure"]) == f.id:
                                r = find_lookup(F, p, PO, c.term["args"][0], R, depth + 1)
                                if r:
                                    return r
    return None


_DRIVES = {}


def param_drives_recursion(F, scc_of, g, argpos):
    """parameter number `argpos` of function g (or something derived from it) is handed to a call that stays inside
    g's recursive component, or g is opaque to us"""
    key = (g, argpos)
    if key in _DRIVES:
        return _DRIVES[key]
    f2 = F.fns.get(g)
    res = True
    if f2 is not None and f2.mir and g in scc_of:
        res = False
        try:
            O2 = Origins(FnFlow(f2))
            for c2 in f2.calls:
                if not any(scc_of.get(t) == scc_of[g] for t in (c2.local_target or [])):
                    continue
                for a2 in c2.term["args"]:
                    if any(o[0] == "param" and o[1] == argpos + 1 for o in O2.of_operand(a2)):
                        res = True
                        break
                if res:
                    break
            # closures created in g capture its parameters: when one of them is part of the cycle, the parameter may
            # be recursed on there (conservative)
            if not res and any(t.startswith(g + "::{closure") and scc_of.get(t) == scc_of[g] for t in scc_of):
                res = True
        except Exception:
            res = True
    _DRIVES[key] = res
    return res


def resolve_edges(F, scc_of, reach):
    """call sites inside recursive SCCs whose argument comes out of a lookup in a user-keyed table"""
    R = lookup_returning(F, [g for g in sorted(reach) if not scalar_output(F.fns[g])])
    for g in sorted(reach):
        f = F.fns[g]
        if not f.mir or g not in scc_of:
            continue
        flow = None
        for c in f.calls:
            tgts = [t for t in (c.local_target or []) if scc_of.get(t) == scc_of[g]]
            if not tgts:
                continue
            if flow is None:
                flow = FnFlow(f)
                O = Origins(flow, keep=not_residual)
            looked = None
            for ai, a in enumerate(c.term["args"]):
                lk = find_lookup(F, f, O, a, R)
                # .. and the callee RECURSES ON that argument (it, or a part of it, reaches a call that stays inside
                # the cycle): a looked-up value that the callee merely stores in its result drives no recursion
                if lk and any(param_drives_recursion(F, scc_of, t, ai) for t in tgts):
                    looked = lk
                    break
            if looked:
                yield f, flow, c, tgts, ("call", looked, c.bb)


def marked_sites(F, scc_of):
    """call sites (fn id, bb) inside recursive SCCs that are dominated, in their own body, by a
    check-or-insert on a set/map that outlives the call (reached through self/parameters/captures,
    not a local accumulator): the recognised shape of a visited-set / memo cut"""
    out = {}
    created = {}
    mark_owner = {}
    site_mark = {}
    for g in scc_of:
        f = F.fns[g]
        if not f.mir:
            continue
        flow = FnFlow(f)
        O = Origins(flow)
        dom = flow.dominators()
        marks = {}
        for c in f.calls:
            if MARKS.search(c.path or "") and c.term["args"]:
                org = O.of_operand(c.term["args"][0])
                outlives = any(o[0] in ("param", "upvar") for o in org)
                fresh = any(o[0] == "call" and re.search(r"::(new|default|with_capacity)$", o[1]) for o in org)
                if outlives and not fresh:
                    marks[c.bb] = c.path
                    # the structure that owns the visited set (type of the parameter it is reached through)
                    for o in org:
                        if o[0] == "param":
                            ty = (f.mir["locals"][o[1]].get("ty") or "").lstrip("&").replace("mut ", "").strip()
                            h = type_head(ty)
                            if h and "::" in h and not h.startswith("std::"):
                                mark_owner.setdefault((g, c.bb), set()).add(h)
                            elif re.match(r"std::collections::(BTreeSet|HashSet|BTreeMap|HashMap)<", ty):
                                # the set itself is handed round as a parameter (`visited: &mut BTreeSet<File>`): it is
                                # its own owner, under its full type
                                mark_owner.setdefault((g, c.bb), set()).add(ty)
        for c in f.calls:
            for bi in dom.get(c.bb, ()):
                if bi in marks and bi != c.bb:
                    out[(g, c.bb)] = marks[bi]
                    site_mark[(g, c.bb)] = (g, bi)
        # closures created under a mark run under it: every creation site of the closure in this body that is
        # dominated by a mark hands the mark on to the closure's own call sites
        for bi, b in enumerate(f.mir["blocks"]):
            for st in b["stmts"]:
                rv = st.get("rv")
                if rv and rv["k"] == "Aggregate" and rv.get("agg") == "Closure":
                    cg = F._callee_gid(f.crate, rv["closure"])
                    m = [marks[d] for d in dom.get(bi, ()) if d in marks and d != bi]
                    created.setdefault(cg, []).append(m[0] if m else None)
    for cg, ms in created.items():
        cf = F.fns.get(cg)
        if cf is None or not cf.mir or cg not in scc_of or not all(ms):
            continue
        for c in cf.calls:
            out.setdefault((cg, c.bb), ms[0] + " (dominating the closure's creation)")
    # a visited set cuts a cycle only if it survives a trip round the cycle: when a member of the SCC holds the
    # owning structure BY VALUE (it constructs a new one: `Converter::new(..)`, a struct literal) every trip may start
    # with an empty set and the mark proves nothing
    byval = collections.defaultdict(dict)
    for g, i in scc_of.items():
        f = F.fns[g]
        if not f.mir:
            continue
        for l in f.mir["locals"][1:]:
            ty = (l.get("ty") or "")
            if ty.startswith("&") or ty.startswith("*"):
                continue
            h = type_head(ty)
            if h:
                byval[i].setdefault(h, g)
            if re.match(r"std::collections::(BTreeSet|HashSet|BTreeMap|HashMap)<", ty):
                byval[i].setdefault(ty, g)
    for site, mk in list(site_mark.items()):
        owners = mark_owner.get(mk, ())
        for h in owners:
            holder = byval[scc_of[site[0]]].get(h)
            if holder is not None:
                RESET[site] = "the mark `%s` is kept in a `%s`, and %s (inside the same recursion) creates a fresh `%s`: the visited set is emptied on the way round" % (out.get(site), h, holder, h)
                if h.startswith("std::collections::"):
                    # a set handed round as a parameter is emptied only on cycles that pass through the function
                    # creating it: the mark stays valid for the cycles that do not (judged per call site in `uncut`)
                    COND[site] = holder
                else:
                    out.pop(site, None)
    return out


RESET = {}
COND = {}


def uncut(F, scc_of, marked, f, c, tgts):
    """is there a cycle through this call site that uses no marked call site?  (reduced graph:
    SCC edges that have at least one unmarked site)"""
    holder = COND.get((f.id, c.bb))
    if (f.id, c.bb) in marked and holder is None:
        return False, marked[(f.id, c.bb)]
    scc = scc_of[f.id]
    # reduced adjacency
    def succs(g):
        ff = F.fns[g]
        for cc in ff.calls:
            if (g, cc.bb) in marked and (g, cc.bb) not in COND:
                continue
            for t in (cc.local_target or []):
                if scc_of.get(t) == scc:
                    yield t
        # closures created / fn values: always unmarked
        for t in F.edges.get(g, ()):
            if scc_of.get(t) == scc and any(k != "call" for k, _ in F.edge_sites.get((g, t), [])):
                yield t
    def reach(src, avoid=None):
        seen = set()
        work = [src]
        while work:
            x = work.pop()
            if x in seen or x == avoid:
                continue
            seen.add(x)
            work.extend(succs(x))
        return seen
    if holder is not None:
        # the mark at this site is void only on a cycle through the function that creates the set afresh
        for t in tgts:
            if t == f.id:
                if holder == f.id:
                    return True, None
                continue
            first = reach(t, avoid=f.id)
            if holder in first and (f.id in reach(holder) or holder == f.id):
                return True, None
        RESET.pop((f.id, c.bb), None)
        return False, marked[(f.id, c.bb)] + " (no cycle through this call passes the function that creates the set)"
    for t in tgts:
        seen = set()
        work = [t]
        while work:
            x = work.pop()
            if x == f.id:
                return True, None
            if x in seen:
                continue
            seen.add(x)
            work.extend(succs(x))
    return False, "every cycle through this call passes a marked call site"


def run(cx, rep):
    F = cx.rs
    reach, parent, roots, exports = reachable(F)
    rep.analysed = {"functions_total": len(F.fns), "functions_reachable": len(reach), "entry_points": sorted(roots)}
    rep.explanation = (
        "Whole-program classification over the resolved call graph from the compiler entry points: (1) every reachable "
        "diverging site (panic-family macros, unwrap/expect, Index, std panicking APIs, bounds/division asserts) is "
        "counted in a multiset keyed by (kind, message, owner type) and compared with a reviewed census: the multiset "
        "may shrink but not grow; (2) every match arm over an input-shaped enum (swc AST, binding tables) whose body is "
        "a panic macro is reported; (3) every call site inside a recursive SCC that passes a value obtained from a "
        "user-keyed table lookup must be dominated by a visited/memo mark; (4) every condition-driven natural loop must "
        "write a loop-carried dependency of its exit condition on every back-edge path. Decides these necessary "
        "conditions of panic-freedom/termination for all inputs; does not decide promptness or swc's parser.")
    rep.trusted = ["rustc MIR/HIR", "call-graph over-approximation (DESIGN 1.1)", "reviewed census table tables/c04_panic_census.json"]
    rep.assumptions = ["dependency crates do not panic on the inputs beff hands them", "release builds disable overflow checks (arithmetic overflow asserts are not counted)"]

    # ---------------------------------------------------------------- C04.1
    rep.rule("C04.1", "reachable diverging sites are exactly the reviewed census (multiset may shrink, not grow)")
    census = cx.table("c04_panic_census.json")
    allowed = {e["key"]: e for e in census["sites"]}
    got = collections.defaultdict(list)
    for s in diverging_sites(F, reach):
        got[site_key(s)].append(s)
    total = 0
    for key in sorted(got):
        sites = got[key]
        total += len(sites)
        e = allowed.get(key)
        locs = ", ".join("%s:%s" % (s["file"], s["line"]) for s in sites[:4])
        if e is None:
            s = sites[0]
            path = " -> ".join(F.path_to(s["fn"].id, parent)[-3:])
            rep.ob("C04.1", "new/" + key, False,
                   "diverging site (%s) reachable from the entry points via %s is not in the reviewed census; give it a guard the census recognises or return a diagnostic" % (key, path), locs)
            continue
        if len(sites) > e["count"]:
            rep.ob("C04.1", "grew/" + key, False,
                   "reachable diverging sites of class (%s) grew from %d to %d" % (key, e["count"], len(sites)), locs)
            continue
        rep.ob("C04.1", key, True, sample={"key": key, "count": len(sites), "class": e["class"], "sites": locs})
        # sites with a known witness input are identified inside their class by the panic message
        for sub in e.get("messages", []):
            if sub["class"].startswith("finding"):
                hit = [s for s in sites if s.get("info") == sub["msg"]]
                if hit:
                    kind, _, ctx = key.split("|", 2)
                    rep.ob("C04.1", "finding/%s|%s|%s" % (kind, sub["msg"], ctx), False, "%s (reachable panic with a known witness input)" % sub["reason"],
                           ", ".join("%s:%s" % (s["file"], s["line"]) for s in hit))
    rep.floor("C04.1", "reachable diverging sites", total, 60)

    # the named invariants that census entries of class `invariant` lean on are decided by their own rules;
    # a violated invariant makes the guarded panic reachable, so it is a C04 violation as well
    rep.rule("C04.inv", "named invariants behind census entries hold (INV-GENNAME = C07.2, INV-ATOM = C05.2)")
    from report import Report
    import importlib
    for modname, rid, inv in (("rules.c07", "C07.2", "INV-GENNAME"), ("rules.c05", "C05.2", "INV-ATOM")):
        sub = Report.__new__(Report)
        sub.pid = "sub"; sub.tier = rep.tier; sub.level = "other"; sub.t0 = 0
        sub.rules = {}; sub.violations = []; sub.samples = []; sub.analysed = {}; sub.assumptions = []; sub.trusted = []
        sub.explanation = ""; sub.notes = []; sub.extra = {}; sub.known = {}; sub.known_hit = set()
        try:
            importlib.import_module(modname).run(cx, sub)
        except Exception as e:  # the other property's check reports its own internal errors
            rep.notes.append("could not evaluate %s inside C04: %s" % (rid, e))
            continue
        r = sub.rules.get(rid, {"obligations": 0, "discharged": 0})
        import json as _json, os as _os
        _kf = _json.load(open(_os.path.join(cx.verif, "known_findings.json")))
        _known_elsewhere = {e["key"] for e in _kf.get("findings", [])}
        # findings already recorded (with witness) under the invariant's own property are reported there
        bad = [v for v in sub.violations if v["rule"] == rid and v["key"] not in _known_elsewhere]
        rep.ob("C04.inv", inv, not bad,
               "%s is violated (%s): the assert/unreachable sites the census classifies under it become reachable: %s" % (inv, rid, "; ".join(v["msg"][:200] for v in bad[:2])),
               bad[0]["loc"] if bad else None, sample={"invariant": inv, "rule": rid, "obligations": r["obligations"], "discharged": r["discharged"]})

    # INV-ANYOF-NONEMPTY (census entry `panic|empty anyOf is not allowed`): AnyOf(empty set) is never constructed
    anyof_nonempty(cx, rep, F)

    # ---------------------------------------------------------------- C04.5
    # "every successful result is a JavaScript module that loads against the client runtime": decided by the
    # writer/reader rules of C01 (every emitted constructor exists with that arity; regex literals are well-formed
    # because every template part goes through the escape function, which covers the delimiter and all syntax chars)
    rep.rule("C04.5", "a successful result loads against the client runtime (C01.1 constructor table, C01.3 regex escaping)")
    sub = Report.__new__(Report)
    sub.pid = "sub"; sub.tier = rep.tier; sub.level = "other"; sub.t0 = 0
    sub.rules = {}; sub.violations = []; sub.samples = []; sub.analysed = {}; sub.assumptions = []; sub.trusted = []
    sub.explanation = ""; sub.notes = []; sub.extra = {}; sub.known = {}; sub.known_hit = set()
    try:
        importlib.import_module("rules.c01").run(cx, sub)
        _kf = _json.load(open(_os.path.join(cx.verif, "known_findings.json")))
        _known_elsewhere = {e["key"] for e in _kf.get("findings", [])}
        for rid_ in ("C01.1", "C01.3"):
            r = sub.rules.get(rid_, {"obligations": 0, "discharged": 0})
            bad = [v for v in sub.violations if v["rule"] == rid_ and v["key"] not in _known_elsewhere]
            rep.ob("C04.5", rid_, not bad and r["obligations"] > 0,
                   "%s is violated: the emitted module does not load (unknown constructor / wrong arity / malformed regular-expression literal): %s" % (rid_, "; ".join(v["msg"][:200] for v in bad[:2])),
                   bad[0]["loc"] if bad else None, sample={"rule": rid_, "obligations": r["obligations"], "discharged": r["discharged"]})
    except Exception as e:
        rep.ob("C04.5", "C01-rules", False, "could not evaluate the C01 writer/reader rules inside C04: %s" % e)

    # ---------------------------------------------------------------- C04.2
    rep.rule("C04.2", "no match arm over an input-shaped enum (swc AST / binding tables) is a panic")
    arms_tab = {(e["adt"], e["variant"]): e for e in cx.table("c04_grammar_excluded_arms.json")["arms"]}
    trees = [(g, F.hir[g]) for g in F.hir if g in reach or any(F.fns[x].root == g for x in ())]
    # include roots of reachable closures
    root_ids = {F.fns[g].root or g for g in reach}
    trees = [(g, F.hir[g]) for g in sorted(root_ids) if g in F.hir]
    n_match = 0
    n_input = 0
    for gid, tree in trees:
        for n in walk(tree):
            if n["k"] == "Match" and n.get("src") == "Normal":
                n_match += 1
                if input_shaped(F, n.get("scrut_adt")):
                    n_input += 1
    for gid, m, a, adt in panicking_arms(F, trees):
        if not input_shaped(F, adt):
            continue
        for v in pat_variants(a["pat"]):
            vshort = v.rsplit("::", 1)[-1]
            key = "%s::%s" % (adt, vshort)
            if (adt, vshort) in arms_tab:
                rep.ob("C04.2", key, True, sample={"arm": key, "excluded_by_grammar": arms_tab[(adt, vshort)]["reason"]})
                continue
            f = F.fns[gid]
            rep.ob("C04.2", "%s@%s" % (key, owner_of(F, f)), False,
                   "match arm %s over input-shaped enum %s panics (%s): an input that produces this variant aborts the compiler instead of yielding a diagnostic" % (
                       vshort, adt, "/".join((strip_block(a["body"]).get("mac") or ["panic"])[-1:])),
                   "%s:%s" % (f.file, a["line"]))
    rep.ob("C04.2", "scan", True, sample={"matches_scanned": n_match, "over_input_shaped_enums": n_input})
    rep.floor("C04.2", "matches over input-shaped enums", n_input, 40)

    # ---------------------------------------------------------------- C04.3a
    rep.rule("C04.3a", "recursive calls that follow a user-keyed table lookup are dominated by a visited/memo mark")
    sccs = [c for c in F.sccs(reach) if len(c) > 1 or c[0] in F.edges.get(c[0], ())]
    scc_of = {}
    for i, c in enumerate(sccs):
        for g in c:
            scc_of[g] = i
    n_edges = 0
    marked = marked_sites(F, scc_of)
    # the structurally accepted route (a call taken only under `<name>.is_builtin()`, passing that name) cuts a cycle
    # like a mark does: builtin names carry no user definition.  Registered here so that a caller of the function that
    # contains it is not reported for the cycle that runs through it.
    for g in scc_of:
        f_ = F.fns[g]
        if not f_.mir or "is_builtin" not in json.dumps([c_.path for c_ in f_.calls]):
            continue
        for c_ in f_.calls:
            if (g, c_.bb) not in marked and any(scc_of.get(t) == scc_of[g] for t in (c_.local_target or [])) and value_guarded_builtin(F, f_, c_):
                marked[(g, c_.bb)] = "taken only under `<looked-up name>.is_builtin()`"
    accepted_edges = {e["key"]: e for e in cx.table("c04_accepted_recursion.json")["edges"]}
    ordinal = collections.Counter()
    for f, flow, c, tgts, looked in resolve_edges(F, scc_of, reach):
        n_edges += 1
        bad, mark = uncut(F, scc_of, marked, f, c, tgts)
        # key: enclosing named function (closures belong to the function that creates them) -> callee, plus an
        # ordinal that counts only the un-cut sites of that pair: neither renumbered closures nor added / removed
        # well-guarded calls rename a recorded finding
        pair = "%s->%s" % (re.sub(r"(::\{closure#\d+\})+$", "", strip_generics(f.id)), strip_generics(tgts[0]))
        if bad:
            key = "%s#%d" % (pair, ordinal[pair])
            ordinal[pair] += 1
        else:
            key = pair + "/cut"
        if os.environ.get("VERIF_C04_KEYMAP") and bad:
            old_pair = "%s->%s" % (strip_generics(f.id), strip_generics(tgts[0]))
            print("KEYMAP\t%s\t%s\t%s:%s" % (old_pair, key, c.file, c.line))
        if bad and value_guarded_builtin(F, f, c):
            rep.ob("C04.3a", key, True, sample={"edge": key, "lookup": looked[1],
                                               "accepted_because": "the call is taken only under `<looked-up name>.is_builtin()`: builtin names carry no user definition, the callee dispatches on the builtin and the type arguments were lowered from sub-syntax before the call"})
            continue
        if bad and key in accepted_edges:
            rep.ob("C04.3a", key, True, sample={"edge": key, "lookup": looked[1], "accepted_because": accepted_edges[key]["reason"]})
            continue
        rep.ob("C04.3a", key, not bad,
               "recursive call %s -> %s passes a value obtained from a table lookup (%s) and some cycle through this call passes no visited/memo mark%s: a cycle in the user's definitions recurses until the stack overflows" % (
                   f.id, tgts[0], looked[1], (" (" + RESET[(f.id, c.bb)] + ")") if (f.id, c.bb) in RESET else ""),
               "%s:%s" % (c.file, c.line), sample={"edge": key, "lookup": looked[1], "cut": mark})
    rep.ob("C04.3a", "sccs", True, sample={"recursive_sccs": len(sccs), "largest": max(len(c) for c in sccs) if sccs else 0, "resolve_edges": n_edges})
    rep.floor("C04.3a", "recursive SCCs", len(sccs), 30)

    # ---------------------------------------------------------------- C04.3b
    rep.rule("C04.3b", "condition-driven loops write a dependency of their exit condition on every back-edge path")
    n_loops = collections.Counter()
    for g in sorted(reach):
        f = F.fns[g]
        if not f.mir:
            continue
        flow = FnFlow(f)
        for h, body in sorted(natural_loops(flow).items()):
            kind, ok, detail = loop_verdict(F, f, flow, h, body)
            n_loops[kind] += 1
            line = None
            for st in flow.blocks[h]["stmts"]:
                line = st.get("line") or line
            line = line or flow.blocks[h]["term"].get("line")
            if kind == "iterator-driven":
                continue
            if ok is None:
                # loop {} with only return/break exits that are unconditional: treat as condition-driven without deps
                ok = False
            nth = n_loops["cd:" + g]
            n_loops["cd:" + g] += 1
            rep.ob("C04.3b", "%s#%d" % (strip_generics(g), nth), ok, "loop in %s: %s" % (g, detail), "%s:%s" % (f.file, line),
                   sample={"fn": g, "kind": kind, "verdict": detail})
    rep.ob("C04.3b", "loops", True, sample={"iterator_driven": n_loops["iterator-driven"], "condition_driven": n_loops["condition-driven"]})
    rep.floor("C04.3b", "condition-driven loops analysed", n_loops["condition-driven"], 5)

    # ---------------------------------------------------------------- C04.4
    rep.rule("C04.4", "diagnostics and locations are constructed only in diag.rs")
    n_ctor = 0
    for g, f in F.fns.items():
        if not f.mir or f.crate == WASM:
            continue
        for b in f.mir["blocks"]:
            for st in b["stmts"]:
                if st["k"] == "Assign" and st["rv"]["k"] == "Aggregate" and st["rv"].get("agg") == "Adt":
                    adt = st["rv"]["adt"]
                    if adt in ("diag::Location", "diag::FullLocation", "diag::UnknownLocation") or (adt == "diag::Location"):
                        n_ctor += 1
                        rep.ob("C04.4", "ctor/%s/%s" % (adt, owner_of(F, f)), f.file.endswith("/diag.rs"),
                               "%s::%s is constructed outside diag.rs (in %s): the file name, source map and span of a diagnostic must come from the same file value" % (adt, st["rv"].get("variant"), g),
                               "%s:%s" % (f.file, st.get("line")))
    rep.floor("C04.4", "Location constructions", n_ctor, 2)
    # the file whose source map locates the span is the file the diagnostic names (same value at each call site)
    n_lb = 0
    for gid, tree in F.hir.items():
        f = F.fns.get(gid)
        if f is None or f.crate == WASM:
            continue
        for n in walk(tree["body"]):
            if n["k"] == "Call" and (n.get("callee") or "").endswith("Location::build") and len(n["args"]) == 3:
                n_lb += 1
                def chain(e):
                    out = []
                    while e["k"] in ("AddrOf", "Unary", "MethodCall", "Field"):
                        if e["k"] == "Field":
                            out.append(e["name"])
                            e = e["e"]
                        elif e["k"] == "MethodCall":
                            e = e["recv"]
                        else:
                            e = e["e"]
                    if e["k"] == "Path" and e.get("res") == "local":
                        out.append(e["name"])
                    return ".".join(reversed(out))
                cur = chain(n["args"][2])
                fexpr = n["args"][0]
                if fexpr["k"] == "Path" and fexpr.get("res") == "local":
                    for st in walk(tree["body"]):
                        if st["k"] == "LetStmt" and st["pat"].get("name") == fexpr["name"] and st.get("init") is not None:
                            fexpr = st["init"]
                got = None
                for x in walk(fexpr):
                    if x["k"] == "MethodCall" and x["method"] == "get_existing_file":
                        got = chain(x["args"][0])
                rep.ob("C04.4", "build-site/%s" % owner_of(F, f), got is not None and got == cur,
                       "Location::build in %s locates the span in the source map of file `%s` but names `%s` as current file: line/column would be computed against another file's text" % (gid, got, cur),
                       "%s:%s" % (f.file, n["line"]), sample={"site": gid.rsplit("::", 1)[-1], "file_from": got, "current_file": cur})
                span = chain(n["args"][1])
                if "." in cur and "." in span:
                    rep.ob("C04.4", "build-site-span/%s" % owner_of(F, f), span.rsplit(".", 1)[0] == cur.rsplit(".", 1)[0],
                           "the span (%s) and the file (%s) handed to Location::build come from different anchors" % (span, cur), "%s:%s" % (f.file, n["line"]))
    rep.floor("C04.4", "Location::build call sites", n_lb, 2)
    lb = [g for g in F.hir if g.endswith("Location::build")]
    for g in lb:
        tree = F.hir[g]
        ps = [p.get("name") for p in tree["params"]]
        for arm in [a for n in walk(tree["body"]) if n["k"] == "Match" for a in n["arms"] if (a["pat"].get("def") or "").endswith("Some")]:
            bound = [b["name"] for b in walk(arm["pat"]) if b["k"] == "P.Binding"]
            roots = set()
            for x in walk(arm["body"]):
                if x["k"] == "Field" and x["name"] in ("source_map", "end_pos", "bff_fname", "fm", "module"):
                    ls = [y["name"] for y in walk(x) if y["k"] == "Path" and y.get("res") == "local"]
                    roots |= set(ls)
            rep.ob("C04.4", "build/one-file-value", roots == set(bound[:1]),
                   "Location::build must take the reported file name, the source map and the end position from the same file value (found roots %s)" % sorted(roots), F.fns[g].loc(),
                   sample={"file_value": bound[:1], "projections_rooted_at": sorted(roots)})

    # ---------------------------------------------------------------- C04.6
    rep.rule("C04.6", "the converter never asks the engine a semantic question while definitions are under construction")
    converter_typestate_rule(cx, rep, "C04.6", sccs_all=None)
    rep.rule("C04.8", "a vector indexed by the counter of a counted loop is as long as the loop's bound")
    counted_index_rule(cx, rep, "C04.8")
    # ---------------------------------------------------------------- C04.9
    guarded_lookup_rule(cx, rep, "C04.9")
    # ---------------------------------------------------------------- C04.10
    nonempty_regex_rule(cx, rep, "C04.10")
    # ---------------------------------------------------------------- C04.11
    reference_chase_rule(cx, rep, "C04.11")
    # ---------------------------------------------------------------- C04.12
    rep.rule("C04.12", "an entry of the validator table of a discriminated union that lists several variants narrows them to its key (the re-dispatched union is smaller)")
    importlib.import_module("rules.c02").disc_schema_table_rule(cx, rep, "C04.12", which="validator")
    # ---------------------------------------------------------------- C04.13
    rep.rule("C04.13", "a set-once slot (its setter refuses a second value: panic or recorded error) is set at most once per processed export item, and a recorded refusal is consulted (= C09.19)")
    importlib.import_module("rules.c09").set_once_rule(cx, rep, "C04.13")
    rep.rule("C04.7", "an Anchor pairs a span with the file the span was read in (syntax and its file travel together)")
    anchor_colocation_rule(cx, rep, "C04.7")

    # positive controls
    rep.rule("C04.ctl", "positive controls in the canary crate")
    C = cx.canary
    ctrees = [(g, t) for g, t in C.hir.items()]
    pa = [(g, a) for g, m, a, adt in panicking_arms(C, ctrees)]
    rep.ob("C04.ctl", "panicking-arms", len(pa) >= 2, "canary: expected >= 2 panicking arms, got %d" % len(pa), sample={"canary_panicking_arms": len(pa)})
    bad_loops = 0
    good_loops = 0
    for g, f in C.fns.items():
        if not f.mir or f.name not in ("spin", "ok_loop"):
            continue
        flow = FnFlow(f)
        for h, body in natural_loops(flow).items():
            kind, ok, detail = loop_verdict(C, f, flow, h, body)
            if kind == "condition-driven" and ok is False:
                bad_loops += 1
            elif kind == "condition-driven" and ok:
                good_loops += 1
    rep.ob("C04.ctl", "loop-without-variant", bad_loops >= 1 and good_loops >= 1,
           "canary: expected spin() flagged and ok_loop() accepted, got flagged=%d accepted=%d" % (bad_loops, good_loops),
           sample={"canary_flagged_loops": bad_loops, "canary_accepted_loops": good_loops})
    creach = set(C.fns)
    csccs = [c for c in C.sccs(creach) if len(c) > 1 or c[0] in C.edges.get(c[0], ())]
    cscc_of = {g: i for i, c in enumerate(csccs) for g in c}
    cmarked = marked_sites(C, cscc_of)
    unc = [1 for f, flow, c, tgts, looked in resolve_edges(C, cscc_of, creach) if uncut(C, cscc_of, cmarked, f, c, tgts)[0]]
    rep.ob("C04.ctl", "uncut-recursion", len(unc) >= 1, "canary: expected chase() flagged as un-cut RESOLVE recursion", sample={"canary_uncut": len(unc)})
    nsites = len(list(diverging_sites(C, creach)))
    rep.ob("C04.ctl", "diverging-sites", nsites >= 5, "canary: expected >= 5 diverging sites, got %d" % nsites, sample={"canary_diverging_sites": nsites})


def _anyof_unpacked_from(tree, a):
    """`let Wrapper(x) = m;` / `let Wrapper { set: x } = m;` with `a` = x: the name of the local m whose only
    field is moved out (helper of anyof_nonempty)"""
    for st in walk(tree["body"]):
        if st["k"] == "LetStmt" and st["pat"]["k"] in ("P.TupleStruct", "P.Struct") and isinstance(st.get("init"), dict):
            binds = [b for b in walk(st["pat"]) if b["k"] == "P.Binding"]
            init = st["init"]
            if len(binds) == 1 and binds[0].get("lid") == a.get("lid") and a.get("lid") is not None \
                    and init["k"] == "Path" and init.get("res") == "local":
                return init["name"]
    return None


def _anyof_forwards_to(F, g):
    """g has no dispatch of its own (no `match`, no `if`, no iterator adaptor other than for_each: nothing that
    could skip an element) and calls exactly one other method of the same type on `self`: that method (helper of
    anyof_nonempty)"""
    t = F.hir.get(g)
    if t is None:
        return None
    body = list(walk(t["body"]))
    if any(m["k"] == "If" or (m["k"] == "Match" and m.get("src") == "Normal") for m in body):
        return None
    if any(m["k"] == "MethodCall" and (m.get("callee") or "").startswith("std::iter::Iterator::") and m["method"] != "for_each" for m in body):
        return None
    owner = g.rsplit("::", 1)[0]
    tg = {m.get("callee") for m in body if m["k"] == "MethodCall" and (m.get("callee") or "").rsplit("::", 1)[0] == owner
          and m["recv"]["k"] == "Path" and m["recv"].get("name") == "self" and m.get("callee") != g and m.get("callee") in F.hir}
    return tg.pop() if len(tg) == 1 else None


def _anyof_len_ge2(cond, truth, call):
    """does `cond` evaluating to `truth` leave at least two elements in a vector handed to `call`?  Comparisons of
    `<that vector>.len()` with an integer literal, either way round; `&&` (when true) / `||` (when false) of them
    (helper of anyof_nonempty)"""
    args = {y.get("lid") for a_ in call.get("args", []) for y in walk(a_) if y["k"] == "Path" and y.get("res") == "local"}

    def is_len(e):
        return e["k"] == "MethodCall" and e["method"] == "len" and any(y["k"] == "Path" and y.get("lid") in args for y in walk(e["recv"]))

    def lit(e):
        return int(e["v"]) if e["k"] == "Lit" and e.get("lit") == "int" and str(e.get("v", "")).isdigit() else None
    if cond["k"] != "Binary":
        return False
    op, l, r = cond.get("op"), cond["l"], cond["r"]
    if op in ("And", "Or"):
        return (op == "And") == truth and (_anyof_len_ge2(l, truth, call) or _anyof_len_ge2(r, truth, call))
    flip = {"Gt": "Lt", "Lt": "Gt", "Ge": "Le", "Le": "Ge"}
    if is_len(r) and lit(l) is not None and op in flip:
        op, l, r = flip[op], r, l
    if not (is_len(l) and lit(r) is not None):
        return False
    k = lit(r)
    if truth:
        return (op == "Gt" and k >= 1) or (op == "Ge" and k >= 2)
    return (op == "Le" and k >= 1) or (op == "Lt" and k >= 2)


def _anyof_always_returns(e):
    """a block whose last statement is `return ..` (helper of anyof_nonempty)"""
    while e is not None and e["k"] == "BlockExpr":
        b = e["block"]
        e = b.get("expr") if b.get("expr") is not None else (b["stmts"][-1] if b.get("stmts") else None)
        if e is not None and e["k"] in ("Semi", "ExprStmt"):
            e = e.get("e")
    return e is not None and e["k"] == "Ret"


def anyof_nonempty(cx, rep, F):
    """every construction of RuntypeKind::AnyOf receives a set that cannot be empty: either a local set with a
    literal insert before, or the accumulator of a merger whose consume() inserts or recurses for EVERY element and
    which is only invoked for vectors of length >= 2"""
    RK_ANYOF = "ast::runtype::RuntypeKind::AnyOf"
    sites = []
    for g, t in F.hir.items():
        f = F.fns.get(g)
        if f is None or f.macros or f.crate == WASM:
            continue
        for n in walk(t["body"]):
            if n["k"] == "Call" and (n.get("callee") or "") == RK_ANYOF:
                sites.append((f, t, n))
    rep.ob("C04.inv", "INV-ANYOF-NONEMPTY/sites", 1 <= len(sites) <= 4, "unexpected number of RuntypeKind::AnyOf construction sites: %d" % len(sites), None,
           sample={"anyof_construction_sites": ["%s:%s" % (f.file, n["line"]) for f, t, n in sites]})
    for f, t, n in sites:
        a = n["args"][0]
        locs = [x["name"] for x in walk(a) if x["k"] == "Path" and x.get("res") == "local"]
        ok = False
        why = "argument is neither a literal set with an insert nor a merger accumulator"
        # the accumulator moved out of the merger by a destructuring `let Merger(set) = merger;` (b101) is the
        # merger's field just like `merger.0`
        unpacked = _anyof_unpacked_from(t, a) if a["k"] == "Path" else None
        if unpacked is not None:
            a, locs = {"k": "Field"}, [unpacked]
        if a["k"] == "Path" and locs:
            ins = [x for x in walk(t["body"]) if x["k"] == "MethodCall" and x["method"] == "insert" and [y["name"] for y in walk(x["recv"]) if y["k"] == "Path" and y.get("res") == "local"] == locs and x["line"] < n["line"]]
            ok = len(ins) >= 1
            why = "the set is built with %d unconditional insert(s) before the construction" % len(ins)
        elif a["k"] == "Field" and locs:
            # accumulator of a merger: find its type's consume-like method called here
            calls = [x for x in walk(t["body"]) if x["k"] == "MethodCall" and [y["name"] for y in walk(x["recv"]) if y["k"] == "Path" and y.get("res") == "local"] == locs and x["line"] < n["line"]]
            ok = False
            for c in calls:
                cg = c.get("callee")
                ct = F.hir.get(cg)
                if ct is None:
                    continue
                # a method that only hands EVERY element to another method of the merger (`absorb_all` -> `absorb`,
                # b101) is followed: the dispatch is judged in the per-element method, and a call back into any
                # method of this family is the recursion
                family = [cg]
                fw = _anyof_forwards_to(F, cg)
                while fw is not None and fw not in family and len(family) < 3:
                    family.append(fw)
                    cg, ct = fw, F.hir[fw]
                    fw = _anyof_forwards_to(F, cg)
                ms = [m for m in walk(ct["body"]) if m["k"] == "Match" and m.get("src") == "Normal"]
                ifs = [m for m in walk(ct["body"]) if m["k"] == "If"]
                if len(ms) == 1 and not ifs:
                    branches = [(arm["body"], arm["line"]) for arm in ms[0]["arms"]]
                elif len(ifs) == 1 and not ms:
                    # `if let Nested(x) = it.kind { recurse } else { insert }`: two branches; no else = a dropping path
                    branches = [(ifs[0]["then"], ifs[0]["line"])] + ([(ifs[0]["else"], ifs[0]["line"])] if ifs[0].get("else") else [({"k": "Unit"}, ifs[0]["line"])])
                else:
                    why = "merger %s has no single dispatch over its elements" % cg
                    continue
                bad = []
                for bbody, bline in branches:
                    inserts = any(x["k"] == "MethodCall" and x["method"] == "insert" for x in walk(bbody))
                    recurses = any(x["k"] in ("MethodCall", "Call") and x.get("callee") in family for x in walk(bbody))
                    if not inserts and not recurses:
                        bad.append(bline)
                ok = not bad
                why = "every arm of %s inserts or recurses" % cg.rsplit("::", 1)[-1] if ok else "an arm of %s (line %s) drops its element: a union whose members are all dropped becomes AnyOf(empty), which print_runtype answers with panic!(\"empty anyOf is not allowed\")" % (cg, bad)
            # callers hand over at least two members
            callers = [(g2, x) for g2, t2 in F.hir.items() for x in walk(t2["body"]) if x["k"] == "Call" and x.get("callee") == f.id]
            for g2, x in callers:
                guarded = False
                for m in walk(F.hir[g2]["body"]):
                    if m["k"] == "Match" and m["scrut"]["k"] == "MethodCall" and m["scrut"]["method"] == "len":
                        lits = {a2["pat"].get("lit") for a2 in m["arms"]}
                        wild = [a2 for a2 in m["arms"] if a2["pat"]["k"] == "P.Wild"]
                        if {"0", "1"} <= lits and wild and any(y is x for y in walk(wild[0]["body"])):
                            guarded = True
                    # `if vs.len() > 1 { return merger(vs) }` (b101): the call stands on the branch of a length test
                    # that leaves at least two members, or behind an earlier `if <fewer than two> { return .. }`
                    if m["k"] == "If":
                        in_then = any(y is x for y in walk(m["then"]))
                        in_else = m.get("else") is not None and any(y is x for y in walk(m["else"]))
                        if (in_then and _anyof_len_ge2(m["cond"], True, x)) or (in_else and _anyof_len_ge2(m["cond"], False, x)):
                            guarded = True
                    if m["k"] == "Block":
                        sts = m.get("stmts", [])
                        tail = sts + ([m["expr"]] if m.get("expr") is not None else [])
                        idx = next((j for j, s_ in enumerate(tail) if any(y is x for y in walk(s_))), None)
                        for s_ in tail[:idx or 0]:
                            e_ = s_.get("e") if s_["k"] in ("ExprStmt", "Semi") else s_
                            if e_ is not None and e_["k"] == "If" and e_.get("else") is None and _anyof_len_ge2(e_["cond"], False, x) \
                                    and _anyof_always_returns(e_["then"]):
                                guarded = True
                if not guarded:
                    ok = False
                    why = "%s calls the merger without first handling the 0- and 1-member cases" % g2
        rep.ob("C04.inv", "INV-ANYOF-NONEMPTY/%s" % f.id.rsplit("::", 1)[-1], ok,
               "RuntypeKind::AnyOf may be constructed from an empty set in %s: %s" % (f.id, why), "%s:%s" % (f.file, n["line"]), sample={"site": f.id.rsplit("::", 1)[-1], "argument": why})


def value_guarded_builtin(F, f, c):
    """structural form of the one accepted RESOLVE edge: the call sits in the then-branch of `if X.is_builtin()`
    and passes that same X (found in the typed HIR by the call's line, so it survives renames)"""
    tree = F.hir.get(f.root or f.id)
    if tree is None:
        return False
    for n in walk(tree["body"]):
        if n["k"] != "If":
            continue
        cond = n["cond"]
        if cond["k"] == "MethodCall" and cond["method"] == "is_builtin":
            guard_locals = [x["name"] for x in walk(cond["recv"]) if x["k"] == "Path" and x.get("res") == "local"]
            for call in walk(n["then"]):
                if call["k"] in ("Call", "MethodCall") and call.get("line") == c.line:
                    arg_locals = [x["name"] for a in call.get("args", []) for x in walk(a) if x["k"] == "Path" and x.get("res") == "local"]
                    if guard_locals and guard_locals[0] in arg_locals:
                        return True
    return False


def strip_generics(s):
    return re.sub(r"::<[^>]*>", "", s)



def converter_typestate_rule(cx, rep, rid, sccs_all=None):
    """A recursive named type is converted by first pushing a PLACEHOLDER (`None`) into the atom table and filling it
    in once its members are converted.  union / intersect / diff / complement never look inside an atom, so they are
    safe on a half-built table; the emptiness and inclusion decisions (`is_empty`, `is_empty_status`, `is_subtype`,
    `is_same_type`) dereference atoms with `expect(..)`.  Calling one of them from inside the conversion panics on
    every recursive type whose body leads back to itself.  Decided (who-may-call, typestate of the atom tables):
    no function in the recursion of the converter - the functions of subtyping/mod.rs that push a `None` slot into a
    `*_definitions` table, and everything in their call-graph cycle - calls a semantic decision."""
    F = cx.rs
    DECISIONS = re.compile(r"SemTypeOps::(is_empty|is_empty_status|is_subtype|is_same_type)$")
    sccs = [c for c in F.sccs(list(F.fns)) if len(c) > 1 or c[0] in F.edges.get(c[0], ())]
    scc_of = {g: i for i, c in enumerate(sccs) for g in c}
    # placeholder pushers: Vec::push on a table of optional atomic definitions with a `None`-typed argument
    pushers = set()
    for g, f in F.fns.items():
        if not f.mir or f.crate == WASM:
            continue
        for c in f.calls:
            if re.search(r"Vec::<[^>]*>::push$|Vec::<T, A>::push$", c.path or "") or (c.best or "").endswith("::push"):
                full = (c.term["callee"].get("resolved_full") or c.term["callee"].get("full") or "")
                if re.search(r"Vec::<std::option::Option<std::rc::Rc<[\w:]*(ListAtomic|MappingAtomicType)>>", full):
                    pushers.add(g)
    rep.floor(rid, "functions that push a placeholder into an atom table", len(pushers), 1)
    members = set()
    for g in pushers:
        if g in scc_of:
            members |= set(sccs[scc_of[g]])
        members.add(g)
    n_dec = 0
    for g in sorted(F.fns):
        f = F.fns[g]
        if not f.mir:
            continue
        for c in f.calls:
            if DECISIONS.search(c.path or ""):
                n_dec += 1
    rep.floor(rid, "call sites of the semantic decisions (matcher alive)", n_dec, 3)
    bad_n = 0
    for g in sorted(members):
        f = F.fns[g]
        if not f.mir:
            continue
        for c in f.calls:
            if DECISIONS.search(c.path or ""):
                bad_n += 1
                rep.ob(rid, "%s->%s" % (re.sub(r"(::\{closure#\d+\})+$", "", strip_generics(g)), c.path.rsplit("::", 1)[-1]), False,
                       "%s (part of the converter's recursion, during which atom slots of the types being converted still hold placeholders) calls %s: the decision dereferences the placeholder of any type that leads back to itself and panics (`should exist`) instead of producing code or a diagnostic" % (g, c.path),
                       "%s:%s" % (c.file, c.line), sample={"fn": g, "call": c.path})
    rep.ob(rid, "converter-recursion", True, sample={"functions_in_the_converter_recursion": len(members), "decision_calls_inside": bad_n})


SYN_TY = re.compile(r"swc_ecma_ast::|swc_common::Span\b")
FILE_TY = re.compile(r"\bBffFileName\b|\bAnchor\b")
TRANSPARENT = {"clone", "to_owned", "borrow", "as_ref", "deref", "into", "to_string"}
OWN = 10 ** 6


def anchor_colocation_rule(cx, rep, rid):
    """A diagnostic is located by an `Anchor { f: file, s: span }`; the span is a byte range of ONE file, so it only
    means something together with that file.  Most of the frontend passes `(syntax node, file it was parsed from)`
    down together and builds anchors from the pair.  Where a function is handed syntax of the CURRENT file together
    with ANOTHER file (the module an `import("./m")` resolved to - needed to resolve names there), an anchor built
    from that pair names the other file with offsets of this one: the reported range is not inside the named file.
    Decided inter-procedurally over the typed HIR of the frontend:
      * REQ(f) = the (syntax parameter, file / anchor parameter) pairs from which f - or a function it passes them on
        to - builds an Anchor (least fixpoint);
      * at every call of a function with a required pair, and at every Anchor construction, a syntax argument that
        comes from the caller's own syntax parameters must be accompanied by a file / anchor that IS the caller's own
        file / anchor parameter (a clone, a field, an Anchor built from it) - not one obtained from a lookup or an
        import resolution."""
    F = cx.rs
    fns = {}
    for g, t in F.hir.items():
        f = F.fns.get(g)
        if f is None or f.kind == "Closure" or f.crate == WASM or "/src/frontend/" not in (f.file or ""):
            continue
        fns[g] = (f, t)
    info = {}
    for g, (f, t) in fns.items():
        params = []
        for i, p in enumerate(t.get("params", [])):
            lids = [x.get("lid") for x in walk(p) if x["k"] == "P.Binding"] if isinstance(p, dict) else []
            params.append(lids)
        ptys = f.inputs or []
        lid2param = {}
        for i, lids in enumerate(params):
            for l in lids:
                lid2param[l] = i
        src = {}
        for n in walk(t["body"]):
            if n["k"] in ("LetStmt", "Let") and n.get("init") is not None:
                for b in walk(n["pat"]):
                    if b["k"] == "P.Binding":
                        src.setdefault(b.get("lid"), []).append(n["init"])
            if n["k"] == "Match":
                for a in n["arms"]:
                    for b in walk(a["pat"]):
                        if b["k"] == "P.Binding":
                            src.setdefault(b.get("lid"), []).append(n["scrut"])
        info[g] = (params, ptys, lid2param, src)

    def loose_params(g, e, depth=0, seen=None):
        """parameter indices the expression may derive from"""
        params, ptys, lid2param, src = info[g]
        seen = seen if seen is not None else set()
        out = set()
        if e is None:
            return out
        for x in walk(e):
            if x["k"] == "Path" and x.get("res") == "local":
                l = x.get("lid")
                if l in lid2param:
                    out.add(lid2param[l])
                elif l in src and l not in seen and depth < 8:
                    seen.add(l)
                    for e2 in src[l]:
                        out |= loose_params(g, e2, depth + 1, seen)
        return out

    def strict_params(g, e, depth=0, seen=None):
        """parameter indices the expression IS (through clones, references, field reads, an Anchor built from it)"""
        params, ptys, lid2param, src = info[g]
        seen = seen if seen is not None else set()
        if e is None or depth > 8:
            return set()
        k = e["k"]
        if k in ("AddrOf", "Unary", "Cast", "DropTemps", "Paren"):
            return strict_params(g, e["e"], depth + 1, seen)
        if k == "Field":
            b_ = e["e"]
            while b_["k"] in ("AddrOf", "Unary"):
                b_ = b_["e"]
            if b_["k"] == "Path" and b_.get("name") == "self":
                return {OWN}          # a file the context itself is working on (the parser file), not a lookup
            base = strict_params(g, e["e"], depth + 1, seen)
            if base and FILE_TY.search(e.get("ty") or ""):
                return base | {OWN}   # a location handed in inside a parameter (a scope / options record): the caller's choice
            return base
        if k == "MethodCall" and e["method"] in TRANSPARENT:
            return strict_params(g, e["recv"], depth + 1, seen)
        if k == "Struct" and (e.get("def") or "").endswith("Anchor"):
            for fl in e.get("fields", []):
                if fl.get("name") == "f":
                    return strict_params(g, fl.get("e") or fl.get("expr"), depth + 1, seen)
            return set()
        if k == "Path" and e.get("res") == "local":
            l = e.get("lid")
            if l in lid2param:
                return {lid2param[l]}
            if l in src and l not in seen:
                seen.add(l)
                out = None
                for e2 in src[l]:
                    s_ = strict_params(g, e2, depth + 1, seen)
                    out = s_ if out is None else (out & s_)
                return out or set()
        return set()

    PROJ = TRANSPARENT | {"as_deref", "iter", "first", "last", "get", "unwrap", "expect", "as_slice", "split_first", "find", "next", "into_iter",
                          "unwrap_or_default", "span", "ok_or", "ok_or_else", "and_then", "map", "filter", "cloned", "nth"}

    def syn_params(g, e, depth=0, seen=None):
        """syntax parameters the expression is a PART of (fields, pattern bindings, projections) - a value that comes
        back from a lookup is not part of this function's own syntax even if the key was computed from it"""
        params, ptys, lid2param, src = info[g]
        seen = seen if seen is not None else set()
        if e is None or depth > 10:
            return set()
        k = e["k"]
        if k in ("AddrOf", "Unary", "Cast", "DropTemps", "Paren", "Field", "Index"):
            return syn_params(g, e["e"], depth + 1, seen)
        if k == "MethodCall" and e["method"] in PROJ:
            return syn_params(g, e["recv"], depth + 1, seen)
        if k == "Path" and e.get("res") == "local":
            l = e.get("lid")
            if l in lid2param:
                return {lid2param[l]}
            if l in src and l not in seen:
                seen.add(l)
                out = set()
                for e2 in src[l]:
                    out |= syn_params(g, e2, depth + 1, seen)
                return out
        return set()

    def is_syn(ty):
        return bool(SYN_TY.search(ty or ""))

    def is_loc(ty):
        return bool(FILE_TY.search(ty or "")) and "swc_ecma_ast" not in (ty or "")
    REQ = {g: set() for g in fns}
    sites = {g: [] for g in fns}     # (node, syntax expr, file expr, what)
    for g, (f, t) in fns.items():
        for n in walk(t["body"]):
            if n["k"] == "Struct" and (n.get("def") or "").endswith("diag::Anchor") or (n["k"] == "Struct" and (n.get("ty") or "").endswith("Anchor")):
                fl = {x.get("name"): (x.get("e") or x.get("expr")) for x in n.get("fields", [])}
                if fl.get("f") is not None and fl.get("s") is not None:
                    sites[g].append((n, fl["s"], fl["f"], "Anchor"))
    changed = True
    rounds = 0
    while changed and rounds < 12:
        changed = False
        rounds += 1
        for g, (f, t) in fns.items():
            params, ptys, lid2param, src = info[g]
            cand = list(sites[g])
            for n in walk(t["body"]):
                if n["k"] in ("Call", "MethodCall"):
                    tg = F._callee_gid(f.crate, (n.get("resolved") or n.get("callee") or ""))
                    if tg in REQ and REQ[tg]:
                        args = ([n["recv"]] + n["args"]) if n["k"] == "MethodCall" else n["args"]
                        for (a, b) in REQ[tg]:
                            if a < len(args) and b < len(args):
                                cand.append((n, args[a], args[b], tg))
            for n, se, fe, what in cand:
                ps = {i for i in syn_params(g, se) if i < len(ptys) and is_syn(ptys[i])}
                pf = {i for i in strict_params(g, fe) if i < len(ptys) and is_loc(ptys[i])}
                for i in ps:
                    for j in pf:
                        if (i, j) not in REQ[g]:
                            REQ[g].add((i, j))
                            changed = True
    n_sites = 0
    for g, (f, t) in sorted(fns.items()):
        params, ptys, lid2param, src = info[g]
        cand = list(sites[g])
        for n in walk(t["body"]):
            if n["k"] in ("Call", "MethodCall"):
                tg = F._callee_gid(f.crate, (n.get("resolved") or n.get("callee") or ""))
                if tg in REQ and REQ[tg]:
                    args = ([n["recv"]] + n["args"]) if n["k"] == "MethodCall" else n["args"]
                    for (a, b) in sorted(REQ[tg]):
                        if a < len(args) and b < len(args):
                            cand.append((n, args[a], args[b], tg))
        seen_keys = {}
        for n, se, fe, what in cand:
            ps = {i for i in syn_params(g, se) if i < len(ptys) and is_syn(ptys[i])}
            if not ps:
                continue          # the syntax does not come from this function's own parameters (C09.13 covers records)
            n_sites += 1
            pf = {i for i in strict_params(g, fe) if i == OWN or (i < len(ptys) and is_loc(ptys[i]))}
            callee = what if what == "Anchor" else what.rsplit("::", 1)[-1]
            key = "%s/%s" % (g.rsplit("::", 1)[-1], callee)
            k_i = seen_keys.get(key, 0)
            seen_keys[key] = k_i + 1
            rep.ob(rid, "%s#%d" % (key, k_i), bool(pf),
                   "%s hands syntax of the file it is working on to %s together with a file that is not its own file / anchor parameter (it comes from a lookup or an import resolution): an Anchor built from the pair names that file with byte offsets of this one, so a diagnostic reports a range that does not lie inside the file it names (`type X = import(\"./other\").NS.Foo` with NS missing)" % (g, "an Anchor" if what == "Anchor" else what),
                   "%s:%s" % (f.file, n.get("line")), sample={"fn": g, "to": callee})
    rep.floor(rid, "places where syntax and a file / anchor are paired", n_sites, 40)


def counted_index_rule(cx, rep, rid):
    hits = counted_index_sites(cx.rs, lambda f: "/src/subtyping/" in (f.file or ""))
    for key, ok, msg, loc, sample in hits:
        rep.ob(rid, key, ok, msg, loc, sample=sample)
    rep.ob(rid, "scanned", True, sample={"indexings_by_a_loop_counter": len(hits)})
    if cx.canary is not None:
        ch = counted_index_sites(cx.canary, lambda f: True)
        bad = {k.split("/")[0] for k, ok, _, _, _ in ch if not ok}
        good = {k.split("/")[0] for k, ok, _, _, _ in ch if ok}
        rep.ob(rid, "control/canary-counted-index", "counted_index_drift" in bad and "counted_index_tied" in good and "counted_index_tied" not in bad,
               "positive control: the canary crate's drifting copy must be reported and its tied twin must not (reported: %s)" % sorted(bad), "canary/rs/src/lib.rs")


def counted_index_sites(F, select):
    """`v[i]` panics when i >= v.len().  In the recursive emptiness procedures vectors are padded, cloned and indexed
    under a running bound (`len`), and the bound and the vector can drift apart without any test noticing: padding a
    COPY while the loop still clones the original (`let mut s = prefix_items.clone(); s[i] = d`) indexes past the end
    exactly when the padding happened (`[string, ...number[]] extends [string, string]` aborts the compiler).
    Decided for the counted loops `for i in 0..N` of the subtyping engine: every `v[i]` inside is either guarded by
    `i < v.len()` (through a local), or N is tied to v: N starts as the length of v (or of the vector v is a clone
    of), and wherever N is raised (`N = M`) a loop `for _ in N..M` pushes onto v (or onto the vector v is cloned
    from)."""
    out = []
    n = 0
    for g, t in sorted(F.hir.items()):
        f = F.fns.get(g)
        if f is None or f.kind == "Closure" or not select(f):
            continue
        body = t["body"]
        inits = {}
        assigns = {}
        for x in walk(body):
            if x["k"] == "LetStmt" and x.get("init") is not None and x["pat"]["k"] == "P.Binding":
                inits.setdefault(x["pat"]["lid"], []).append(x["init"])
            if x["k"] == "Assign" and x["l"]["k"] == "Path" and x["l"].get("res") == "local":
                assigns.setdefault(x["l"]["lid"], []).append(x["r"])

        def strip(e):
            while e["k"] in ("AddrOf", "Unary", "Cast", "DropTemps", "Paren"):
                e = e["e"]
            return e

        def vec_key(e):
            """identity of a vector expression: a local, or a field path"""
            e = strip(e)
            if e["k"] == "Path" and e.get("res") == "local":
                return ("l", e["lid"])
            if e["k"] == "Field":
                b = vec_key(e["e"])
                return ("f", b, e["name"]) if b else None
            return None

        def origin(k):
            """the vector a local was cloned from (one step), else itself"""
            if k and k[0] == "l":
                for i_ in inits.get(k[1], []):
                    i2 = strip(i_)
                    if i2["k"] == "MethodCall" and i2["method"] in ("clone", "to_vec", "to_owned"):
                        return vec_key(i2["recv"]) or k
            return k

        def len_of(e):
            """the vector whose length the expression is (directly or through one local)"""
            e = strip(e)
            if e["k"] == "MethodCall" and e["method"] == "len":
                return vec_key(e["recv"])
            if e["k"] == "Path" and e.get("res") == "local":
                srcs = {len_of(i_) for i_ in inits.get(e["lid"], [])}
                if len(srcs) == 1:
                    return next(iter(srcs))
            return None
        # push loops: (vector key, range start local, range end local)
        loops = []
        for m in walk(body):
            if m["k"] == "Match" and m.get("src") == "ForLoopDesugar":
                rng = next((s_ for s_ in walk(m["scrut"]) if s_["k"] == "Struct" and "Range" in (s_.get("ty") or s_.get("def") or "")), None)
                if rng is None:
                    continue
                fl = {x.get("name"): (x.get("e") or x.get("expr")) for x in rng.get("fields", [])}
                ivar = next((b["lid"] for a in walk(m) if a["k"] == "Arm" for b in walk(a["pat"]) if b["k"] == "P.Binding" and (b.get("ty") or "") in ("usize", "i32", "u32", "i64")), None)
                loops.append((m, fl.get("start"), fl.get("end"), ivar))
        pads = []
        for m, st_, en_, ivar in loops:
            for x in walk(m):
                if x["k"] == "MethodCall" and x["method"] in ("push", "resize"):
                    k = vec_key(x["recv"])
                    if k and st_ is not None and en_ is not None:
                        pads.append((k, strip(st_), strip(en_)))
        for x in walk(body):
            if x["k"] == "MethodCall" and x["method"] == "resize" and x["args"]:
                k = vec_key(x["recv"])
                if k:
                    pads.append((k, None, strip(x["args"][0])))
            # v.extend((a..b).map(|_| x)) / v.extend(repeat(x).take(b - a)): one element per index of the range
            if x["k"] == "MethodCall" and x["method"] == "extend" and x["args"]:
                k = vec_key(x["recv"])
                rng = next((s_ for s_ in walk(x["args"][0]) if s_["k"] == "Struct" and "Range" in (s_.get("ty") or s_.get("def") or "")), None)
                if k and rng is not None and not any(y["k"] == "MethodCall" and y.get("method") in ("filter", "filter_map", "skip", "take", "step_by", "take_while", "skip_while", "flat_map") for y in walk(x["args"][0])):
                    fl = {y.get("name"): (y.get("e") or y.get("expr")) for y in rng.get("fields", [])}
                    if fl.get("start") is not None and fl.get("end") is not None:
                        pads.append((k, strip(fl["start"]), strip(fl["end"])))
        for m, st_, en_, ivar in loops:
            if st_ is None or en_ is None or ivar is None:
                continue
            s0 = strip(st_)
            if not (s0["k"] == "Lit" and str(s0.get("v")) == "0"):
                continue
            N = strip(en_)
            for x in walk(m):
                if x["k"] != "Index" or "e" not in x:
                    continue
                ix = strip(x["i"])
                if not (ix["k"] == "Path" and ix.get("lid") == ivar):
                    continue
                vk = vec_key(x["e"])
                if vk is None:
                    continue
                n += 1
                ok = False
                why = ""
                # (1) the bound IS the length
                if len_of(N) in (vk, origin(vk)) and not (N["k"] == "Path" and assigns.get(N.get("lid"))):
                    ok = True
                # (2) a guard `i < K` with K the length of this vector, on the way to the index
                if not ok:
                    for c in walk(m):
                        if c["k"] == "If" and any(y is x for y in walk(c.get("then") or {})):
                            cd = c["cond"]
                            if cd["k"] == "Binary" and cd.get("op") == "Lt" and strip(cd["l"])["k"] == "Path" and strip(cd["l"]).get("lid") == ivar and len_of(cd["r"]) in (vk, origin(vk)):
                                ok = True
                # (3) the bound starts as the length and is only raised together with a padding of this vector
                if not ok and N["k"] == "Path" and len_of(N) is not None and origin(len_of(N)) == origin(vk) or (not ok and N["k"] == "Path" and len_of(N) in (vk, origin(vk))):
                    raised = assigns.get(N["lid"], [])
                    good = True
                    for r_ in raised:
                        r2 = strip(r_)
                        padded = any(k in (vk, origin(vk)) and en is not None and en["k"] == "Path" and r2["k"] == "Path" and en.get("lid") == r2.get("lid") for k, st2, en in pads)
                        if not padded:
                            good = False
                            why = "the bound is raised to `%s` without padding this vector" % (r2.get("name") or "?")
                    ok = good
                # (4) the vector was padded to max(its length, the bound's vector's length) before the loop
                if not ok and len_of(N) is not None:
                    for k, st2, en in pads:
                        if k in (vk, origin(vk)) and en is not None and en["k"] == "Path":
                            for i_ in inits.get(en.get("lid"), []):
                                i2 = strip(i_)
                                if i2["k"] in ("Call", "MethodCall") and ((i2.get("callee") or "").endswith("::max") or i2.get("method") == "max"):
                                    margs = ([i2["recv"]] + i2["args"]) if i2["k"] == "MethodCall" else i2["args"]
                                    if any(len_of(a_) == len_of(N) for a_ in margs):
                                        ok = True
                out.append(("%s/%s[%s]" % (g.rsplit("::", 1)[-1], (strip(x["e"]).get("name") or "?"), "i"), ok,
                       "%s indexes `%s` with the counter of a loop whose bound is not tied to that vector's length (%s): when the bound exceeds the length the compiler aborts with an index-out-of-bounds panic instead of answering" % (g, strip(x["e"]).get("name") or "?", why or "no guard, no padding"),
                       "%s:%s" % (f.file, x["line"]), {"fn": g}))
    return out


# ---------------------------------------------------------------------------------------------------- C04.9
def _strip(e):
    while isinstance(e, dict) and e.get("k") in ("AddrOf", "DropTemps", "Deref", "Unary") and isinstance(e.get("e"), dict) and not (e.get("k") == "Unary" and e.get("op") == "Not"):
        e = e["e"]
    if isinstance(e, dict) and e.get("k") == "BlockExpr" and not e["block"].get("stmts") and e["block"].get("expr"):
        return _strip(e["block"]["expr"])
    if isinstance(e, dict) and e.get("k") == "MethodCall" and e.get("method") in ("clone", "as_ref", "borrow", "to_owned", "as_str", "deref") and not e.get("args"):
        return _strip(e["recv"])
    return e


def _local(e):
    e = _strip(e)
    return e.get("lid") if isinstance(e, dict) and e.get("k") == "Path" and e.get("res") == "local" else None


def _chain_root(e):
    """the collection local an iterator chain starts from: C.iter().filter(..).map(..) -> lid of C"""
    e = _strip(e)
    while isinstance(e, dict) and e.get("k") == "MethodCall":
        e = _strip(e["recv"])
    return _local(e) if isinstance(e, dict) else None


def guarded_lookup_rule(cx, rep, rid):
    """`map.get(k).expect(..)` / `.unwrap()` on every element `map` of a collection C panics for the first element that
    lacks `k`.  Such a lookup is justified only by a test that EVERY element of C has the key, made with the same C
    and the same k on every path to the lookup: `C.iter().all(|it| it.contains_key(&k))` known true (enclosing `if`,
    or an earlier `if !.. { continue / return }`), in the function itself or - when C and k are parameters - at every
    call site of the function, for the arguments passed there (followed through callers, two levels).  The seeded change
    C04-l replaced the test by a `filter_map(|it| it.get(&k))` that silently skips the elements lacking the key while
    the callee still unwraps: `{kind: "a"} | {kind: "b"} | {other: string}` made the compiler panic."""
    F = cx.rs
    rep.rule(rid, "a lookup that must succeed for every element of a collection is preceded by a test that every element has the key")
    from facts import walk as hwalk, children
    fns = [g for g in F.hir if F.fns.get(g) is not None and F.fns[g].crate != WASM and "/src/print/" in (F.fns[g].file or "") and F.fns[g].kind != "Closure"]
    # per function: sites [(node, C lid, K lid)], facts established at nodes, calls with argument locals
    info = {}
    for g in fns:
        tree = F.hir[g]
        params = [p.get("lid") if p["k"] == "P.Binding" else None for p in tree["params"]]
        lets = {}
        for n in hwalk(tree["body"]):
            if n["k"] == "LetStmt" and n["pat"]["k"] == "P.Binding" and n.get("init") is not None:
                lets[n["pat"].get("lid")] = n["init"]
        def resolve(e, depth=3):
            e = _strip(e)
            l = _local(e)
            while l is not None and l in lets and depth > 0:
                e = _strip(lets[l])
                l = _local(e)
                depth -= 1
            return e
        def guard_of(e):
            """(C, K) if e is `C.iter().all(|it| it.contains_key(&K))`, also through a bool local"""
            e = resolve(e)
            if not (isinstance(e, dict) and e.get("k") == "MethodCall" and e.get("method") == "all" and e.get("args")):
                return None
            cl = _strip(e["args"][0])
            if cl.get("k") != "Closure" or not cl.get("params"):
                return None
            pl = [q.get("lid") for q in hwalk(cl["params"][0]) if q["k"] == "P.Binding"]
            b = _strip(cl["body"])
            if b.get("k") == "MethodCall" and b.get("method") == "contains_key" and _local(b["recv"]) in pl and b.get("args"):
                return (canon(_chain_root(e["recv"])), canon(_local(b["args"][0])))
            return None
        def canon(l, depth=3):
            # a local that is a plain alias / clone / reference of another local stands for it
            while l is not None and l in lets and depth > 0:
                l2 = _local(lets[l])
                if l2 is None:
                    break
                l, depth = l2, depth - 1
            return l
        sites, calls = [], []
        def leaves(b):
            return any(x["k"] in ("Ret", "Break", "Continue") for x in hwalk(b))
        def visit(n, facts, elem_of):
            k = n.get("k")
            if k in ("BlockExpr",):
                return visit(n["block"], facts, elem_of)
            if k == "Block":
                cur = set(facts)
                for st in n.get("stmts") or []:
                    visit(st, cur, elem_of)
                    e = st.get("e") if st["k"] in ("ExprStmt", "Semi") else None
                    e = _strip(e) if e else None
                    if e is not None and e.get("k") == "If" and not e.get("else"):
                        c = _strip(e["cond"])
                        if c.get("k") == "Unary" and c.get("op") == "Not" and leaves(e["then"]):
                            gk = guard_of(c["e"])
                            if gk:
                                cur = cur | {gk}
                if n.get("expr") is not None:
                    visit(n["expr"], cur, elem_of)
                return
            if k == "If":
                visit(n["cond"], facts, elem_of)
                gk = guard_of(n["cond"]) if n["cond"].get("k") != "Let" else None
                visit(n["then"], facts | ({gk} if gk else set()), elem_of)
                if n.get("else"):
                    visit(n["else"], facts, elem_of)
                return
            if k == "MethodCall" and n.get("args") and any(_strip(a).get("k") == "Closure" for a in n["args"]):
                root = canon(_chain_root(n["recv"]))
                visit(n["recv"], facts, elem_of)
                for a in n["args"]:
                    a2 = _strip(a)
                    if a2.get("k") == "Closure":
                        eo = dict(elem_of)
                        if root is not None:
                            for prm in a2.get("params") or []:
                                for q in hwalk(prm):
                                    if q["k"] == "P.Binding":
                                        eo[q.get("lid")] = root
                        visit(a2["body"], facts, eo)
                    else:
                        visit(a, facts, elem_of)
                return
            if k == "MethodCall" and n.get("method") in ("expect", "unwrap"):
                r = _strip(n["recv"])
                if r.get("k") == "MethodCall" and r.get("method") == "get" and "BTreeMap" in (r.get("callee") or "") and r.get("args"):
                    m = _local(r["recv"])
                    kk = canon(_local(r["args"][0]))
                    if m in elem_of and kk is not None:
                        sites.append((n, elem_of[m], kk, set(facts)))
            if k == "Call":
                tg = F._callee_gid(F.fns[g].crate, n.get("callee") or "")
                if tg in F.hir:
                    calls.append((n, tg, [canon(_local(a)) for a in n["args"]], set(facts)))
            for c in children(n):
                visit(c, facts, elem_of)
        visit(tree["body"], set(), {})
        info[g] = (params, sites, calls)
    n_sites = 0
    def discharged(g, C, K, facts, depth, trail):
        if (C, K) in facts:
            return True, None
        params = info[g][0]
        if C in params and K in params and depth > 0:
            ci, ki = params.index(C), params.index(K)
            callers = [(h, c) for h in info for c in info[h][2] if c[1] == g]
            if not callers:
                return False, "no caller of %s establishes it" % g
            for h, (cn, _tg, args, cf) in callers:
                if ci >= len(args) or ki >= len(args) or args[ci] is None or args[ki] is None:
                    return False, "the call at %s:%s passes something other than plain locals" % (F.fns[h].file, cn.get("line"))
                ok, why = discharged(h, args[ci], args[ki], cf, depth - 1, trail + [h])
                if not ok:
                    return False, why or "the call of %s in %s (line %s) is not under `<collection>.iter().all(|it| it.contains_key(&<key>))` for the arguments it passes" % (g.rsplit("::", 1)[-1], h, cn.get("line"))
            return True, None
        return False, None
    for g in sorted(info):
        params, sites, calls = info[g]
        for node, C, K, facts in sites:
            n_sites += 1
            ok, why = discharged(g, C, K, facts, 2, [g])
            rep.ob(rid, "%s/get-expect" % g.rsplit("::", 1)[-1], ok,
                   "%s unwraps `<element>.get(<key>)` for every element of a collection, but no test that EVERY element has the key dominates it (%s): an element without the key makes the compiler panic" % (
                       g, why or "no `<collection>.iter().all(|it| it.contains_key(&<key>))` known true here or at the call sites"),
                   "%s:%s" % (F.fns[g].file, node.get("line")), sample={"fn": g, "facts_here": len(facts)})
    # no floor: a tree without such lookups (Option-propagating helpers instead) satisfies the rule; the seeded change
    # C04-l keeps the matcher alive in the thorough tier
    rep.ob(rid, "scan", True, sample={"must_succeed_lookups_found": n_sites, "functions_scanned": len(info)})


# ---------------------------------------------------------------------------------------------------- C04.11
_MAP_GETS = ("get", "get_mut", "get_key_value")
# std adaptors that hand their receiver's payload on (wrapped / unwrapped / borrowed / cloned) ...
_PASS_RECV = {"cloned", "copied", "clone", "to_owned", "as_ref", "as_mut", "as_deref", "as_deref_mut", "borrow", "borrow_mut", "deref",
              "into", "ok", "ok_or", "ok_or_else", "map_err", "unwrap", "expect", "unwrap_or", "unwrap_or_default", "flatten", "filter",
              "take", "or", "or_else", "unwrap_or_else"}
# ... and those whose result is what the closure they are given returns
_PASS_CLOSURE = {"and_then", "map", "or_else", "unwrap_or_else", "map_or", "map_or_else", "then", "filter_map", "find_map"}
_WRAPPERS = re.compile(r"(::Some|::Ok|::Err|Try::branch|FromResidual::from_residual|From::from|(Box|Rc|Arc)::<[^>]*>::new)$")


def _is_map_get(c):
    return c["k"] == "MethodCall" and c.get("method") in _MAP_GETS and "Map<" in (c["recv"].get("ty") or "") and bool(c.get("args"))


def _binding_sources(node):
    """local id -> the expressions a binding made inside `node` is taken from (let initialisers, match scrutinees,
    and - for the parameters of a closure handed to a method - the receiver of that method: `opt.and_then(|it| ..)`)"""
    src = {}
    for x in walk(node):
        if x["k"] in ("LetStmt", "Let") and x.get("init") is not None:
            for b in walk(x["pat"]):
                if b["k"] == "P.Binding":
                    src.setdefault(b.get("lid"), []).append(x["init"])
        if x["k"] == "Match":
            for a in x["arms"]:
                for b in walk(a["pat"]):
                    if b["k"] == "P.Binding":
                        src.setdefault(b.get("lid"), []).append(x["scrut"])
        if x["k"] == "MethodCall":
            for cl in x.get("args") or []:
                if cl.get("k") == "Closure":
                    for b in walk(cl.get("params") or []):
                        if b["k"] == "P.Binding":
                            src.setdefault(b.get("lid"), []).append(x["recv"])
    return src


def _derivation(src, e, seen=None, depth=0):
    """expressions e is computed from, through the bindings recorded in src"""
    seen = seen if seen is not None else set()
    out = [e]
    for z in walk(e):
        if z["k"] == "Path" and z.get("res") == "local" and z.get("lid") in src and z["lid"] not in seen and depth < 8:
            seen.add(z["lid"])
            for e2 in src[z["lid"]]:
                out += _derivation(src, e2, seen, depth + 1)
    return out


def _local_ids(es):
    return {z.get("lid") for e in es for z in walk(e) if z["k"] == "Path" and z.get("res") == "local"}


def _call_target(F, crate, c):
    if c["k"] == "Call":
        return F._callee_gid(crate, c.get("callee") or "")
    if c["k"] == "MethodCall":
        return F._callee_gid(crate, c.get("resolved") or c.get("callee") or "")
    return None


def _call_operands(c):
    """operands of a call in the order of the callee's parameters (receiver first)"""
    return ([c["recv"]] if c["k"] == "MethodCall" else []) + list(c.get("args") or [])


def _lookup_keys(F, crate, c, helpers):
    """key expressions if the call node c is a table lookup: `<map>.get(<key>)` itself, or a call of a lookup helper -
    then the key is the operand in the helper's key position"""
    if _is_map_get(c):
        return [c["args"][0]]
    if c["k"] in ("Call", "MethodCall"):
        ops = _call_operands(c)
        return [ops[i] for i in sorted(helpers.get(_call_target(F, crate, c), ())) if i < len(ops)]
    return []


def _lookups_in(F, crate, e, helpers):
    """(call node, key expression) of every table lookup inside e"""
    for c in walk(e):
        for key in _lookup_keys(F, crate, c, helpers):
            yield c, key


def _value_calls(src, e, stop, seen=None, depth=0):
    """the calls whose RESULT the value of e may be - looked at through blocks, branches, the function's own
    bindings, borrows / fields, Option / Result plumbing (`?`, `Some(..)`, `.and_then(|it| it.as_ref()).cloned()`) -
    unlike _derivation, not every call that merely occurs in the text of e.  stop(call): do not look behind it."""
    seen = seen if seen is not None else set()
    if not isinstance(e, dict) or depth > 40:
        return
    k = e.get("k")
    if k == "BlockExpr":
        yield from _value_calls(src, e.get("block"), stop, seen, depth + 1)
    elif k == "Block":
        yield from _value_calls(src, e.get("expr"), stop, seen, depth + 1)
    elif k == "If":
        yield from _value_calls(src, e.get("then"), stop, seen, depth + 1)
        yield from _value_calls(src, e.get("else"), stop, seen, depth + 1)
    elif k == "Match":
        for a in e["arms"]:
            yield from _value_calls(src, a["body"], stop, seen, depth + 1)
    elif k in ("AddrOf", "Unary", "Cast", "Field", "Index"):
        yield from _value_calls(src, e.get("e"), stop, seen, depth + 1)
    elif k == "Path":
        if e.get("res") == "local" and e.get("lid") in src and e["lid"] not in seen:
            seen.add(e["lid"])
            for e2 in src[e["lid"]]:
                yield from _value_calls(src, e2, stop, seen, depth + 1)
    elif k == "Call":
        yield e
        if not stop(e) and _WRAPPERS.search(e.get("callee") or ""):
            for a in e.get("args") or []:
                yield from _value_calls(src, a, stop, seen, depth + 1)
    elif k == "MethodCall":
        yield e
        cal = e.get("callee") or ""
        if stop(e) or not cal.startswith(("std::", "core::", "alloc::")):
            return
        m = e.get("method")
        closures = [a for a in e.get("args") or [] if a.get("k") == "Closure"]
        if m in _PASS_CLOSURE and closures:
            for cl in closures:
                yield from _value_calls(src, cl["body"], stop, seen, depth + 1)
        if m in _PASS_RECV or (m in _PASS_CLOSURE and not closures):
            yield from _value_calls(src, e["recv"], stop, seen, depth + 1)


def lookup_helpers(F, depth=2):
    """local function -> positions of the parameters that key a table lookup whose result the function hands back.
    (benign b90: the lookup `partial_validators.get(r).and_then(|it| it.as_ref()).cloned()` of an alias-following
    loop became the helper `resolved_validator(&self, r)`; the loop that calls it is the same reference chase.)
    A function qualifies if its value - tail expression and `return`s, see _value_calls - may be the result of a map
    lookup keyed by something computed from the parameter, or of a call of a function that qualifies; `depth` levels
    (a helper, and a helper of a helper - what extracting code out of a loop produces; the full closure would also
    name the recursive resolvers, which end in a memo lookup, and they are not what a loop 'looks up')."""
    H = {}
    cand = {}
    for g, t in F.hir.items():
        f = F.fns.get(g)
        if f is None or "beff-core/src" not in (f.file or "") or f.kind == "Closure":
            continue
        params = [{b.get("lid") for b in walk(p) if b["k"] == "P.Binding"} for p in t["params"]]
        if not any(params):
            continue
        body = t["body"]
        outs = [body] + [r["e"] for r in walk(body) if r["k"] == "Ret" and isinstance(r.get("e"), dict)]
        cand[g] = (f.crate, params, _binding_sources(body), outs)
    for level in range(depth):
        prev = {g: set(v) for g, v in H.items()}
        for g in sorted(cand):
            crate, params, src, outs = cand[g]
            keyed = set(prev.get(g, ()))
            for o in outs:
                for c in _value_calls(src, o, lambda c_: bool(_lookup_keys(F, crate, c_, prev))):
                    for key in _lookup_keys(F, crate, c, prev):
                        kl = _local_ids(_derivation(src, key))
                        keyed |= {i for i, pl in enumerate(params) if pl & kl}
            if keyed:
                H[g] = keyed
        if H == prev:
            break
    return H


def reference_chase_rule(cx, rep, rid):
    """The recursion rule (C04.3) sees calls; a `while` / `loop` that follows references through a name -> definition
    table is the same traversal without a call: `while let Ref(r) = &t.kind { t = table.get(r)..; }` never ends on
    `type A = B; type B = A` - valid input for which the compiler must produce a diagnostic.  Decided for every loop
    of beff-core that is not a `for`: if the body re-assigns a local X from a value that comes out of a map lookup
    whose key derives from X (directly, or through a binding of a pattern matched on X), the loop is a reference
    chase, and then it records where it has been - an `insert` into a set / map inside the loop - or counts fuel (a
    compound assignment to a local that a condition of the loop reads)."""
    F = cx.rs
    rep.rule(rid, "a loop that follows references through a definition table records where it has been")
    n_loops, n_chase = 0, 0
    # the lookup may sit behind a helper (`self.resolved_validator(r)`): calls of lookup helpers count as lookups keyed
    # by the operand in the helper's key position, so the loop is found wherever it lives (b90: `follow_ref_chain`)
    helpers = lookup_helpers(F)
    for g, t in sorted(F.hir.items()):
        f = F.fns.get(g)
        if f is None or "beff-core/src" not in (f.file or ""):
            continue
        for lp in walk(t["body"]):
            if lp["k"] != "Loop" or lp.get("src") == "ForLoop" or any(m_ in ("Deserialize", "Serialize") for m_ in (lp.get("mac") or [])):
                continue
            n_loops += 1
            src = _binding_sources(lp)
            chase = None
            for a in walk(lp):
                if a["k"] != "Assign":
                    continue
                root = a["l"]
                while root["k"] in ("Field", "Index", "Unary", "Deref"):
                    root = root.get("e") or root.get("expr") or {}
                    if not root:
                        break
                if not root or root.get("k") != "Path" or root.get("res") != "local":
                    continue
                X = root.get("lid")
                for e in _derivation(src, a["r"]):
                    for c, key in _lookups_in(F, f.crate, e, helpers):
                        if X in _local_ids(_derivation(src, key)):
                            chase = (a, c, root.get("name"))
            if chase is None:
                continue
            n_chase += 1
            a, c, xname = chase
            records = [z for z in walk(lp) if z["k"] == "MethodCall" and z.get("method") == "insert" and re.search(r"Set<|Map<", z["recv"].get("ty") or "")]
            fuel = False
            counters = {z["l"].get("lid") for z in walk(lp) if z["k"] == "AssignOp" and z["l"].get("k") == "Path"}
            for i_ in walk(lp):
                if i_["k"] == "If" and any(z["k"] == "Path" and z.get("lid") in counters for z in walk(i_["cond"])):
                    fuel = True
            rep.ob(rid, "%s/%s" % (f.name, xname), bool(records) or fuel,
                   "%s follows references in a loop - `%s` is re-assigned from a lookup (`%s.get(..)`) keyed by what `%s` holds - without recording the keys it has seen and without a fuel counter: a reference cycle (`type A = B; type B = A`, also across files) keeps the loop running forever, where the compiler owes a diagnostic" % (
                       g, xname, ((c["recv"].get("name") or "table") if _is_map_get(c) else "%s(..) -> table" % (c.get("method") or (c.get("callee") or "helper").rsplit("::", 1)[-1])), xname),
                   "%s:%s" % (f.file, lp["line"]), sample={"fn": f.name, "chased": xname, "records_visited": bool(records), "fuel": fuel,
                                                           "lookup_through_helper": not _is_map_get(c)})
    rep.ob(rid, "scan", True, sample={"non_for_loops": n_loops, "reference_chases": n_chase, "lookup_helpers": len([h for h in helpers.values() if h])})
    rep.floor(rid, "reference-chasing loops (positive control: the addressed-type walk)", n_chase, 1)


# ---------------------------------------------------------------------------------------------------- C04.10
def nonempty_regex_rule(cx, rep, rid):
    """`//` is not a regular expression literal in JavaScript but the start of a comment: a module that contains
    `new RegexRuntype(undefined, //, ..)` does not load.  The text of every regex literal the printer emits comes from
    a function of the IR; that function must not be able to return the empty string - it tests its result for
    emptiness (and substitutes `(?:)`), since a template literal type may consist of empty parts only (`${""}`)."""
    F = cx.rs
    rep.rule(rid, "the text of an emitted regular-expression literal is never empty")
    n = 0
    for g, t in sorted(F.hir.items()):
        f = F.fns.get(g)
        if f is None or "/src/print/" not in (f.file or ""):
            continue
        for st in walk(t["body"]):
            if st["k"] != "Struct" or not (st.get("def") or "").endswith("Regex"):
                continue
            exp = next((fl["e"] for fl in st.get("fields", []) if fl["name"] == "exp"), None)
            if exp is None:
                continue
            n += 1
            producers = []
            for x in walk(exp):
                if x["k"] in ("Call", "MethodCall"):
                    cal = x.get("callee") if x["k"] == "Call" else (x.get("resolved") or x.get("callee"))
                    tg = F._callee_gid(f.crate, cal or "")
                    if tg in F.hir and "String" in (F.fns[tg].output or ""):
                        producers.append(tg)
            if not producers:
                # the text is a parameter of a small builder (`regex_lit(text)`): judged at the callers, for the argument
                plids = [p_.get("lid") if p_["k"] == "P.Binding" else None for p_ in t["params"]]
                used = [plids.index(x.get("lid")) for x in walk(exp) if x["k"] == "Path" and x.get("lid") in plids]
                if used:
                    for g2, t2 in F.hir.items():
                        f2 = F.fns.get(g2)
                        if f2 is None or "/src/print/" not in (f2.file or ""):
                            continue
                        for c2 in walk(t2["body"]):
                            if c2["k"] == "Call" and F._callee_gid(f2.crate, c2.get("callee") or "") == g and used[0] < len(c2["args"]):
                                for x in walk(c2["args"][used[0]]):
                                    if x["k"] in ("Call", "MethodCall"):
                                        cal = x.get("callee") if x["k"] == "Call" else (x.get("resolved") or x.get("callee"))
                                        tg = F._callee_gid(f2.crate, cal or "")
                                        if tg in F.hir and "String" in (F.fns[tg].output or ""):
                                            producers.append(tg)
            lit = [x for x in walk(exp) if x["k"] == "Lit" and x.get("lit") == "str"]
            ok = bool(lit and all(x.get("v") for x in lit)) if not producers else True
            why = ""
            for pg in producers:
                tests = [x for x in walk(F.hir[pg]["body"]) if x["k"] == "MethodCall" and x.get("method") == "is_empty" and "String" in (x.get("recv_ty") or "") + (x["recv"].get("ty") or "")]
                # the test must concern the value that is returned: a local String of the producer
                if not tests:
                    ok = False
                    why = pg
            rep.ob(rid, "%s/regex-text-non-empty" % g.rsplit("::", 1)[-1], ok,
                   "the text of the regular-expression literal emitted by %s comes from %s, which can return the empty string (no emptiness test on its result): a template literal type whose parts are all empty is emitted as `//`, a comment - the generated module is a syntax error" % (g, why),
                   "%s:%s" % (f.file, st.get("line")), sample={"fn": g, "producers": producers})
    rep.floor(rid, "regular-expression literals emitted by the printer", n, 1)
