"""C05 — assignability decisions coincide with inclusion of value sets.

C05.1  definition shape: is_subtype = is_empty(diff(self, other)); is_same_type = both directions;
       is_empty = (status == IsEmpty); complement = diff(unknown, self)
C05.2  family agreement (INV-ATOM): a region selected by one of the four atom families
       (list / mapping / map / set) only touches that family's tables, constructors and accessors
C05.3  co-inductive memo discipline of the emptiness entry points
C05.5  polarity of the BDD path walk (left extends pos, right extends neg, middle neither; results and-ed)
"""
import re
from facts import walk, WASM
from facts import children as _children
from mirflow import FnFlow, Origins, op_place

LEVEL = "other"

FAMS = ("mapping", "list", "map", "set")
FIELD_RE = re.compile(r"^(mapping|list|map|set)_(definitions|runtype_ref_memo|memo\w*)$")
FN_RE = re.compile(r"^(?:get_)?(mapping|list|map|set)_(definition_from_idx|atomic|definition)$")
VARIANT_RE = re.compile(r"(?:subtyping::bdd::Atom|subtyping::subtype::ProperSubtype)::(Mapping|List|Map|Set)$")
KIND_FAMILY = {"Tuple": "list", "Array": "list", "Object": "mapping", "Map": "map", "Set": "set"}


def locals_in(n):
    return [x["name"] for x in walk(n) if x["k"] == "Path" and x.get("res") == "local"]


def family_mentions(n):
    """[(family, what, line)] inside a HIR subtree"""
    out = []
    for x in walk(n):
        k = x["k"]
        if k == "Field":
            m = FIELD_RE.match(x["name"])
            if m and (x.get("adt") or "").endswith("SemTypeContext"):
                out.append((m.group(1), "field " + x["name"], x["line"]))
        elif k in ("Call", "MethodCall"):
            c = x.get("callee") or ""
            m = FN_RE.match(c.rsplit("::", 1)[-1])
            if m and "SemTypeContext" in c:
                out.append((m.group(1), "fn " + c.rsplit("::", 1)[-1], x["line"]))
        if k in ("Path", "Call", "P.TupleStruct", "P.Expr", "P.Struct", "Struct"):
            d = x.get("def") or (x.get("callee") if k == "Call" else None) or ""
            m = VARIANT_RE.search(d)
            if m:
                out.append((m.group(1).lower(), "variant " + d.rsplit("::", 2)[-2] + "::" + m.group(1), x["line"]))
    return out


def pat_single_variant(pat):
    """(adt-variant def path) if the pattern selects exactly one variant (through refs/bindings), else None"""
    k = pat["k"]
    if k in ("P.Ref", "P.Box", "P.Deref"):
        return pat_single_variant(pat["sub"])
    if k == "P.Binding" and pat.get("sub"):
        return pat_single_variant(pat["sub"])
    if k in ("P.TupleStruct", "P.Struct", "P.Expr") and pat.get("def"):
        return pat["def"]
    return None


def reaches(F, src, dst, _memo={}):
    key = (id(F), src, dst)
    if key in _memo:
        return _memo[key]
    seen, todo = {src}, [src]
    ok = False
    while todo:
        g = todo.pop()
        if g == dst:
            ok = True
            break
        for h in F.edges.get(g, ()):
            if h not in seen:
                seen.add(h)
                todo.append(h)
    _memo[key] = ok
    return ok


def can_reenter(F, f, c):
    """the call may lead back into f: its callee reaches f in the call graph, or it is handed a function value
    (the path walk is given the formula procedure as a `fn`)"""
    for t in c.local_target or ():
        if reaches(F, t, f.id):
            return True
        tf = F.fns.get(t)
        if tf is not None and any("fn(" in (i or "") or "Fn" in (i or "") for i in (tf.inputs or [])):
            return True
        if makes_indirect_calls(F, t):
            return True     # e.g. a method of a context struct that holds the procedure as a `fn` field
    return False


def makes_indirect_calls(F, src, _memo={}):
    """some function reachable from src calls through a function value (fn pointer / closure field)"""
    key = (id(F), src)
    if key in _memo:
        return _memo[key]
    seen, todo, ok = {src}, [src], False
    while todo and not ok:
        g = todo.pop()
        fn = F.fns.get(g)
        if fn is not None and any(c.indirect for c in fn.calls):
            ok = True
            break
        for h in F.edges.get(g, ()):
            if h not in seen:
                seen.add(h)
                todo.append(h)
    _memo[key] = ok
    return ok


def run(cx, rep):
    F = cx.rs
    rep.explanation = (
        "Structural rules over the typed HIR and MIR of the semantic subtyping engine: (1) the four definitional "
        "one-liners are matched as call shapes with argument order; (2) sibling-family agreement: every syntactic region "
        "selected by one of the four atom families (an `if let RuntypeKind::Tuple/Object/Map/Set` region of the "
        "Runtype->SemType conversion, a match arm on Atom::X / ProperSubtype::X) may only mention tables, accessors and "
        "constructors of that family; (3) memo typestate absent -> Undefined -> decided, same key, insert before the "
        "recursive computation, Undefined read as IsEmpty; (4) polarity of the path accumulator in bdd_every_result. "
        "These are necessary conditions of correct assignability decisions; the emptiness procedures themselves "
        "(Frisch's Phi', mapping difference) are not decided.")
    rep.trusted = ["rustc typed HIR / MIR", "family naming scheme <fam>_definitions / <fam>_runtype_ref_memo / <fam>_definition_from_idx / Atom::<Fam>"]
    rep.assumptions = ["C06 (set operations exact)", "the emptiness procedures for list and mapping atoms are correct"]

    impl = "<std::rc::Rc<subtyping::semtype::ComplexSemType> as subtyping::semtype::SemTypeOps>::"
    # ---------------------------------------------------------------- C05.1
    rep.rule("C05.1", "definition shape of is_subtype / is_same_type / is_empty / complement")
    t = F.hir.get(impl + "is_subtype")
    if t is None:
        rep.anchor_missing("C05.1", impl + "is_subtype")
    else:
        ps = [p.get("name") for p in t["params"]]
        diffs = [n for n in walk(t["body"]) if n["k"] == "MethodCall" and (n.get("callee") or "").endswith("SemTypeOps::diff")]
        emptys = [n for n in walk(t["body"]) if n["k"] == "MethodCall" and (n.get("callee") or "").endswith("SemTypeOps::is_empty")]
        ok = len(diffs) == 1 and len(emptys) == 1 and locals_in(diffs[0]["recv"]) == [ps[0]] and locals_in(diffs[0]["args"][0]) == [ps[1]] \
            and any(x is diffs[0] for x in walk(emptys[0]["recv"]))
        rep.ob("C05.1", "is_subtype", ok, "is_subtype(a, b) must be is_empty(a.diff(b)) with this argument order; found diff(%s, %s)" % (
            locals_in(diffs[0]["recv"]) if diffs else "?", locals_in(diffs[0]["args"][0]) if diffs else "?"), "%s:%s" % (F.fns[impl + "is_subtype"].file, t["body"]["line"]),
            sample={"fn": "is_subtype", "shape": "is_empty(diff(%s,%s))" % (ps[0], ps[1])})
    # the four definitional functions are single expressions: no extra branch may answer without consulting emptiness
    for nm in ("is_subtype", "is_same_type", "is_empty", "complement"):
        tt = F.hir.get(impl + nm)
        if tt is None:
            continue
        extra = [n for n in walk(tt["body"]) if n["k"] in ("If", "Ret", "Loop") or (n["k"] == "Match" and not (n.get("src") or "").startswith("TryDesugar") and not
                 any((a["pat"].get("def") or "").endswith("IsEmptyStatus::IsEmpty") for a in n["arms"]))]
        extra = [n for n in extra if not any("desugar" in m for m in (n.get("mac") or []))]
        rep.ob("C05.1", "%s/single-expression" % nm, not extra,
               "%s has additional control flow (%s at line %s): a shortcut that answers without computing the difference's emptiness can disagree with it (an uninhabited object/tuple component is only discovered by the emptiness check)" % (
                   nm, extra[0]["k"] if extra else "", extra[0]["line"] if extra else ""), F.fns[impl + nm].loc(), sample={"fn": nm, "extra_control_flow": len(extra)})
    t = F.hir.get(impl + "is_same_type")
    if t is None:
        rep.anchor_missing("C05.1", impl + "is_same_type")
    else:
        ps = [p.get("name") for p in t["params"]]
        calls = [n for n in walk(t["body"]) if n["k"] == "MethodCall" and (n.get("callee") or "").endswith("SemTypeOps::is_subtype")]
        dirs = sorted((tuple(locals_in(c["recv"])), tuple(locals_in(c["args"][0]))) for c in calls)
        ands = [n for n in walk(t["body"]) if n["k"] == "Binary" and n["op"] == "And"]
        ors = [n for n in walk(t["body"]) if n["k"] == "Binary" and n["op"] == "Or"]
        want = sorted([((ps[0],), (ps[1],)), ((ps[1],), (ps[0],))])
        rep.ob("C05.1", "is_same_type", dirs == want and len(ands) == 1 and not ors,
               "is_same_type must be is_subtype(a,b) && is_subtype(b,a); found directions %s joined by %d && / %d ||" % (dirs, len(ands), len(ors)),
               F.fns[impl + "is_same_type"].loc(), sample={"fn": "is_same_type", "directions": [list(map(list, d)) for d in dirs]})
    t = F.hir.get(impl + "is_empty")
    if t is None:
        rep.anchor_missing("C05.1", impl + "is_empty")
    else:
        def status_matches(body):
            return [n for n in walk(body) if n["k"] == "Match" and any((a["pat"].get("def") or "").endswith("IsEmptyStatus::IsEmpty") or
                                                                       (a["pat"].get("def") or "").endswith("IsEmptyStatus::NotEmpty") for a in n["arms"])]

        def only_is_empty_is_true(m):
            vals = {}
            for a in m["arms"]:
                d = (a["pat"].get("def") or "_").rsplit("::", 1)[-1]
                lits = [x["v"] for x in walk(a["body"]) if x["k"] == "Lit" and x.get("lit") == "bool"]
                vals[d] = lits[0] if lits else None
            return vals.get("IsEmpty") == "true" and all(v == "false" for k, v in vals.items() if k != "IsEmpty")
        ms = status_matches(t["body"])
        status_calls = [n for n in walk(t["body"]) if n["k"] == "MethodCall" and (n.get("callee") or "").endswith("is_empty_status")]
        ok = False
        if len(ms) == 1:
            ok = only_is_empty_is_true(ms[0])
            st = [n for n in walk(ms[0]["scrut"]) if n["k"] == "MethodCall" and (n.get("callee") or "").endswith("is_empty_status")]
            ok = ok and len(st) == 1
        elif not ms and len(status_calls) == 1:
            # the comparison with IsEmpty may sit behind a predicate of the status type (benign b91:
            # `self.is_empty_status(b)?.is_empty()` with `IsEmptyStatus::is_empty = matches!(self, IsEmpty)`): the one
            # local function applied to the status is followed and must BE that comparison - a single match on its own
            # parameter, IsEmpty => true, everything else => false, no other control flow, no negation on either side
            fcrate = F.fns[impl + "is_empty"].crate
            preds = []
            for n in walk(t["body"]):
                if n["k"] not in ("Call", "MethodCall") or n is status_calls[0]:
                    continue
                tg = F._callee_gid(fcrate, (n.get("callee") if n["k"] == "Call" else (n.get("resolved") or n.get("callee"))) or "")
                subject = n["recv"] if n["k"] == "MethodCall" else (n["args"][0] if n.get("args") else None)
                if tg in F.hir and subject is not None and any(x is status_calls[0] for x in walk(subject)):
                    preds.append(tg)
            if len(preds) == 1:
                pt = F.hir[preds[0]]
                pm = status_matches(pt["body"])
                pps = [p.get("name") for p in pt["params"]]
                other = [n for n in walk(pt["body"]) if n["k"] in ("If", "Ret", "Loop", "Call", "MethodCall") or (n["k"] == "Match" and not any(n is m_ for m_ in pm))]
                negs = [n for b_ in (t["body"], pt["body"]) for n in walk(b_) if n["k"] == "Unary" and n.get("op") == "Not"]
                ok = len(pm) == 1 and len(pps) == 1 and only_is_empty_is_true(pm[0]) and locals_in(pm[0]["scrut"]) == [pps[0]] and not other and not negs
        rep.ob("C05.1", "is_empty", ok, "is_empty must be `is_empty_status == IsEmpty`", F.fns[impl + "is_empty"].loc())
    t = F.hir.get(impl + "complement")
    if t is None:
        rep.anchor_missing("C05.1", impl + "complement")
    else:
        ps = [p.get("name") for p in t["params"]]
        diffs = [n for n in walk(t["body"]) if n["k"] == "MethodCall" and (n.get("callee") or "").endswith("SemTypeOps::diff")]
        ok = len(diffs) == 1 and locals_in(diffs[0]["args"][0]) == [ps[0]] and not locals_in(diffs[0]["recv"]) and \
            any((x.get("callee") or "").endswith("SemTypeContext::unknown") for x in walk(diffs[0]["recv"]) if x["k"] == "Call")
        rep.ob("C05.1", "complement", ok, "complement(x) must be unknown().diff(x)", F.fns[impl + "complement"].loc())

    # ---------------------------------------------------------------- C05.2
    rep.rule("C05.2", "family agreement: a region selected by one atom family touches only that family (INV-ATOM)")
    n_regions = 0
    core_roots = [g for g in F.hir if not g.startswith(WASM) and "test" not in g]
    for gid in sorted(core_roots):
        tree = F.hir[gid]
        f = F.fns.get(gid)
        if f is None or not (f.file or "").startswith("packages/beff-core/src/subtyping"):
            continue
        # (a) `if let RuntypeKind::<K> {..} = ..` regions
        for n in walk(tree["body"]):
            if n["k"] == "If" and n["cond"]["k"] == "Let":
                d = pat_single_variant(n["cond"]["pat"]) or ""
                m = re.search(r"RuntypeKind::(\w+)$", d)
                if m and m.group(1) in KIND_FAMILY:
                    n_regions += check_region(rep, F, f, "if-let RuntypeKind::%s" % m.group(1), KIND_FAMILY[m.group(1)], n["then"], n["line"])
            if n["k"] == "Match":
                for a in n["arms"]:
                    d = pat_single_variant(a["pat"]) or ""
                    m = VARIANT_RE.search(d)
                    if m:
                        n_regions += check_region(rep, F, f, "arm %s" % d.split("::", 2)[-1], m.group(1).lower(), a["body"], a["line"])
                    m2 = re.search(r"RuntypeKind::(\w+)$", d)
                    if m2 and m2.group(1) in KIND_FAMILY and gid.endswith("convert_to_sem_type"):
                        # top-level arms of the conversion: builder.tuple / mapping_definition / map / set
                        n_regions += check_region(rep, F, f, "arm RuntypeKind::%s" % m2.group(1), KIND_FAMILY[m2.group(1)], a["body"], a["line"])
    rep.floor("C05.2", "family-selected regions with family mentions", n_regions, 8)
    mixed_family_arm_rule(cx, rep, "C05.2")

    # ---------------------------------------------------------------- C05.3
    rep.rule("C05.3", "memo typestate of the emptiness entry points: lookup, Undefined => IsEmpty, insert before recursion, same key updated")
    entries = []
    for g, f in F.fns.items():
        if not f.mir or f.crate == WASM:
            continue
        ins = [c for c in f.calls if (c.path or "").endswith("::insert") and len(c.term["args"]) >= 3 and any(
            o[0] == "agg" and (o[1] or "").endswith("MemoEmpty") and o[2] == "Undefined" for o in Origins(FnFlow(f)).of_operand(c.term["args"][2]))] \
            if any((c.path or "").startswith("std::collections::BTreeMap") and (c.path or "").endswith("::insert") for c in f.calls) else []
        if ins:
            entries.append((f, ins))
    rep.floor("C05.3", "memoised emptiness entry points", len(entries), 2)
    for f, ins in entries:
        flow = FnFlow(f)
        O = Origins(flow)
        dom = flow.dominators()
        name = f.id
        gets = [c for c in f.calls if (c.path or "").endswith("BTreeMap::<K, V, A>::get")]
        getmuts = [c for c in f.calls if (c.path or "").endswith("BTreeMap::<K, V, A>::get_mut")]
        comp = [c for c in f.calls if c.local_target and not (c.path or "").startswith("std::") and "MemoEmpty" not in (c.path or "")
                and "clone" not in (c.path or "") and "deref" not in (c.path or "") and can_reenter(F, f, c)]
        def keyparam(c, idx):
            return sorted(o[1] for o in O.of_operand(c.term["args"][idx]) if o[0] == "param")
        kins = keyparam(ins[0], 1)
        rep.ob("C05.3", "%s/lookup-first" % name, len(gets) >= 1 and all(g.bb in dom.get(ins[0].bb, ()) for g in gets[:1]),
               "memo lookup must precede the Undefined insert", f.loc())
        for c in comp:
            rep.ob("C05.3", "%s/insert-before-recursion" % name, ins[0].bb in dom.get(c.bb, ()) and ins[0].bb != c.bb,
                   "the computation %s is started before (or without) the in-progress mark MemoEmpty::Undefined: a recursive type re-enters it unboundedly" % c.best,
                   "%s:%s" % (c.file, c.line), sample={"fn": name, "computation": c.best, "dominated_by_insert": True})
        rep.floor("C05.3", "computation calls in %s" % name, len(comp), 1)
        if not getmuts:
            # the update moved into a helper: `settle(ctx, &key, &answer)` whose only map update is keyed by one of its
            # parameters - the call stands for the update, its key is the argument at that position
            for c in f.calls:
                for t in c.local_target or ():
                    h = F.fns.get(t)
                    if h is None or not h.mir or h.id == f.id:
                        continue
                    hgm = [hc for hc in h.calls if (hc.path or "").endswith("BTreeMap::<K, V, A>::get_mut")]
                    if len(hgm) != 1 or any((hc.path or "").endswith("::insert") or (hc.path or "").endswith("::remove") for hc in h.calls):
                        continue
                    hk = sorted(o[1] for o in Origins(FnFlow(h)).of_operand(hgm[0].term["args"][1]) if o[0] == "param")
                    if len(hk) == 1 and hk[0] - 1 < len(c.term["args"]):
                        c_key = sorted(o[1] for o in O.of_operand(c.term["args"][hk[0] - 1]) if o[0] == "param")
                        getmuts = [type("HelperUpdate", (), {"bb": c.bb, "term": {"args": [None, c.term["args"][hk[0] - 1]]}, "file": c.file, "line": c.line})()]
                        break
                if getmuts:
                    break
        rep.ob("C05.3", "%s/update-same-key" % name, len(getmuts) == 1 and keyparam(getmuts[0], 1) == kins and
               all(keyparam(g, 1) == kins for g in gets) and bool(kins),
               "the memo entry updated after the computation must be the one marked before it (keys derive from params %s / %s / %s)" % (
                   kins, [keyparam(g, 1) for g in gets], [keyparam(g, 1) for g in getmuts]), f.loc())
        if getmuts:
            rep.ob("C05.3", "%s/update-after-computation" % name, all(c.bb in dom.get(getmuts[0].bb, ()) for c in comp),
                   "the memo update must come after the computation", f.loc())
        # Undefined arm returns IsEmpty (HIR)
        tree = F.hir.get(f.id)
        from facts import walk_inlined
        arms = [a for n, _o in walk_inlined(F, f.id, depth=2) if n["k"] == "Match" for a in n["arms"] if (a["pat"].get("def") or "").endswith("MemoEmpty::Undefined")]
        ok = len(arms) == 1 and any((x.get("def") or "").endswith("IsEmptyStatus::IsEmpty") for x in walk(arms[0]["body"])) and \
            not any((x.get("def") or "").endswith("IsEmptyStatus::NotEmpty") for x in walk(arms[0]["body"]))
        rep.ob("C05.3", "%s/undefined-is-empty" % name, ok, "an in-progress (Undefined) entry must be read as IsEmpty (co-inductive hypothesis)", f.loc())

    # ---------------------------------------------------------------- C05.12
    revocable_memo_rule(F, rep, entries)
    # ---------------------------------------------------------------- C05.13
    engine_decides_rule(F, rep, "C05.13")
    # ---------------------------------------------------------------- C05.14
    skipped_negative_rule(F, rep, "C05.14")
    # ---------------------------------------------------------------- C05.15
    ref_memo_key_rule(F, rep, "C05.15")

    # ---------------------------------------------------------------- C05.5
    rep.rule("C05.5", "polarity of the path walk in bdd_every_result")
    # located by role, not by name: the status combiner is the function (IsEmptyStatus, IsEmptyStatus) -> IsEmptyStatus;
    # the path walk is the self-recursive function over a &Rc<Bdd> that carries two equally typed optional
    # accumulators (positive first, negative second) and answers an IsEmptyStatus
    def is_status(t):
        return t.replace("subtyping::", "").endswith("IsEmptyStatus")
    combiners = [f for f in F.fns.values() if f.mir and f.kind != "Closure" and len(f.inputs or []) == 2 and all(is_status(t) for t in f.inputs) and is_status(f.output or "")]
    walkers = []
    for f in F.fns.values():
        if not f.mir or f.kind == "Closure" or f.id not in F.hir or "IsEmptyStatus" not in (f.output or ""):
            continue
        ins = f.inputs or []
        if not ins or "Bdd" not in ins[0]:
            continue
        opt = [i for i, t in enumerate(ins) if t.startswith("&std::option::Option<")]
        if len(opt) == 2 and ins[opt[0]] == ins[opt[1]] and f.id in F.edges.get(f.id, ()):
            walkers.append((f, opt))
    g = [w[0] for w in walkers]
    if len(g) != 1:
        rep.anchor_missing("C05.5", "the BDD path walk (self-recursive fn(&Rc<Bdd>, pos, neg, ..) -> IsEmptyStatus); found %d" % len(g))
    else:
        f = g[0]
        opt = walkers[0][1]
        tree = F.hir[f.id]
        plids = [p.get("lid") if p["k"] == "P.Binding" else None for p in tree["params"]]
        pos_lid, neg_lid = plids[opt[0]], plids[opt[1]]
        # binders of the Node arm, by field of Bdd::Node
        fld = {}
        for n in walk(tree["body"]):
            if n["k"] == "P.Struct" and (n.get("def") or "").endswith("Bdd::Node"):
                for fl in n["fields"]:
                    for bnd in walk(fl["pat"]):
                        if bnd["k"] == "P.Binding":
                            fld[bnd.get("lid")] = fl["name"]
        # an argument may be a local bound once by an immutable `let` with an initialiser (benign b97: the extended
        # accumulators `and(*atom, neg.clone())` / `and(*atom, pos.clone())` and the three sub-results are named before
        # they are used): such a local is read as its initialiser.  `let mut` and `let x;` locals stay opaque ("?").
        lets = {x["pat"].get("lid"): x["init"] for x in walk(tree["body"])
                if x["k"] == "LetStmt" and x["pat"]["k"] == "P.Binding" and x.get("init") is not None and x.get("els") is None
                and x["pat"].get("mode") == "BindingMode(No, Not)"}
        def walk_lets(e, _open=()):
            for x in walk(e):
                if x["k"] == "Path" and x.get("res") == "local" and x.get("lid") in lets and x.get("lid") not in _open:
                    for y in walk_lets(lets[x["lid"]], _open + (x["lid"],)):
                        yield y
                else:
                    yield x
        def lids(e):
            return [x.get("lid") for x in walk_lets(e) if x["k"] == "Path" and x.get("res") == "local"]
        # the recursive calls, as plain calls or as method calls on the walk's own context struct (arguments are
        # taken in parameter order either way)
        def full_args(n):
            return ([n["recv"]] if n["k"] == "MethodCall" else []) + list(n["args"])
        recs = [n for n in walk(tree["body"]) if (n["k"] == "Call" and F._callee_gid(f.crate, n.get("callee") or "") == f.id)
                or (n["k"] == "MethodCall" and F._callee_gid(f.crate, n.get("resolved") or n.get("callee") or "") == f.id)]
        seen = {}
        for c0 in recs:
            c = {"args": full_args(c0)}
            which = ([fld[l] for a_ in c["args"] for l in lids(a_) if fld.get(l) in ("left", "middle", "right")] or ["?"])[0]
            def ext(a, base):
                ls = lids(a)
                inner = [x for x in walk_lets(a) if x["k"] == "Call"]
                if not inner:
                    return "same" if ls == [base] else "?"
                # extended: a constructor call that takes the accumulator and the node's atom
                return "extended" if base in ls and any(fld.get(l) == "atom" for l in ls) else "?"
            seen[which] = (ext(c["args"][opt[0]], pos_lid), ext(c["args"][opt[1]], neg_lid))
        want = {"left": ("extended", "same"), "right": ("same", "extended"), "middle": ("same", "same")}
        for br, w in want.items():
            rep.ob("C05.5", "walk-%s" % br, seen.get(br) == w,
                   "%s: recursion on `%s` passes (pos,neg) = %s, expected %s (left under +atom, right under -atom, middle under neither)" % (f.name, br, seen.get(br), w), f.loc(),
                   sample={"branch": br, "pos_neg": seen.get(br)})
        cids = {c.id for c in combiners}
        combos = [n for n in walk(tree["body"]) if n["k"] == "Call" and F._callee_gid(f.crate, n.get("callee") or "") in cids]
        rep.ob("C05.5", "combined-with-and", len(combos) == 2 and len(recs) == 3, "the three sub-results must be combined with the conjunction of statuses (found %d combiners for %d recursive calls)" % (len(combos), len(recs)), f.loc())
        t = [a for n in walk(tree["body"]) if n["k"] == "Match" for a in n["arms"] if (a["pat"].get("def") or "").endswith("Bdd::False")]
        rep.ob("C05.5", "false-leaf-empty", len(t) == 1 and any((x.get("def") or "").endswith("IsEmptyStatus::IsEmpty") for x in walk(t[0]["body"])),
               "the False leaf contributes IsEmpty", f.loc())
    g2 = combiners
    if len(g2) != 1:
        rep.anchor_missing("C05.5", "the status combiner fn(IsEmptyStatus, IsEmptyStatus) -> IsEmptyStatus; found %d" % len(g2))
    else:
        import armalg
        m = armalg.Model()
        m.true_false = {"subtyping::IsEmptyStatus::IsEmpty": armalg.T, "subtyping::IsEmptyStatus::NotEmpty": armalg.Fz}
        tree = F.hir[g2[0].id]
        try:
            ps = [p["name"] for p in tree["params"]]
            it = armalg.Interp(m, g2[0].id)
            rets = it.run(tree, [armalg.F(armalg.V(p)) for p in ps])
            spec = armalg.AND(armalg.V(ps[0]), armalg.V(ps[1]))
            n = 0
            for cons, val, pt, line in rets:
                if val.kind == "unit":
                    continue
                n += 1
                ok, rows, sat, cex = armalg.check_path(cons, val, spec)
                rep.ob("C05.5", "and-table/path%d" % n, ok,
                       "and_empty_status (IsEmpty = true) must be the conjunction of its operands; counterexample %s" % cex,
                       "%s:%s" % (g2[0].file, line), sample={"result": armalg.show(val.f) if val.kind == "f" else val.kind, "spec": armalg.show(spec), "rows": rows})
            rep.floor("C05.5", "paths of and_empty_status", n, 2)
        except armalg.Uninterpretable as e:
            rep.ob("C05.5", "and-table/uninterpretable", False, "cannot interpret and_empty_status: %s" % e, g2[0].loc())

    # ---------------------------------------------------------------- C05.inv
    # assignability is emptiness of a difference: the set operations themselves are decided by C06 (arm algebra over
    # the BDD layer and the tag-wise operations); a wrong arm there flips assignability answers, so it is a C05
    # violation as well
    rep.rule("C05.inv", "the set operations under the subtype test are exact (C06.1 BDD arms, C06.3 tag-wise operations)")
    from report import Report
    import importlib
    sub = Report.__new__(Report)
    sub.pid = "sub"; sub.tier = rep.tier; sub.level = "other"; sub.t0 = 0
    sub.rules = {}; sub.violations = []; sub.samples = []; sub.analysed = {}; sub.assumptions = []; sub.trusted = []
    sub.explanation = ""; sub.notes = []; sub.extra = {}; sub.known = {}; sub.known_hit = set()
    try:
        importlib.import_module("rules.c06").run(cx, sub)
        for rid_ in ("C06.1", "C06.3"):
            r = sub.rules.get(rid_, {"obligations": 0, "discharged": 0})
            bad = [v for v in sub.violations if v["rule"] == rid_]
            rep.ob("C05.inv", rid_, not bad and r["obligations"] > 0,
                   "%s is violated, so `S <= T` (emptiness of S \\ T) is decided on a wrong difference: %s" % (rid_, "; ".join(v["msg"][:240] for v in bad[:2])),
                   bad[0]["loc"] if bad else None, sample={"rule": rid_, "obligations": r["obligations"], "discharged": r["discharged"]})
    except Exception as e:
        rep.ob("C05.inv", "C06-rules", False, "could not evaluate the C06 rules inside C05: %s" % e)
    # ---------------------------------------------------------------- C05.6
    rep.rule("C05.6", "alternatives explored in a loop of a recursive decision procedure start from the same state")
    n66 = scratch_rule(F, rep, "C05.6", lambda f: (f.file or "").endswith(("subtyping/bdd.rs", "subtyping/mapping.rs", "subtyping/subtype.rs", "subtyping/semtype.rs")))
    rep.floor("C05.6", "recursive calls inside loops of the emptiness procedures", n66, 2)
    if cx.canary is not None:
        hits = scratch_rule(cx.canary, None, None, lambda f: True, collect=True)
        rep.ob("C05.6", "control/canary-scratch", any("backtrack_shared" in h for h in hits) and not any("backtrack_fresh" in h or "backtrack_restored" in h for h in hits),
               "positive control: the canary crate's shared scratch buffer must be reported and its fresh / restored twins must not (reported: %s)" % hits, "canary/rs/src/lib.rs")
    # ---------------------------------------------------------------- C05.8
    rep.rule("C05.8", "a computed difference / intersection that is stored into the fragment checked next is stored on every path")
    engine = lambda f: (f.file or "").endswith(("subtyping/bdd.rs", "subtyping/mapping.rs", "subtyping/subtype.rs", "subtyping/semtype.rs"))
    n68 = fragment_store_rule(F, rep, "C05.8", engine)
    rep.floor("C05.8", "set-operation results stored before a recursive call", n68, 2)
    if cx.canary is not None:
        hits = fragment_store_rule(cx.canary, None, None, lambda f: True, collect=True)
        rep.ob("C05.8", "control/canary-conditional-store", any("fragment_conditional" in h for h in hits) and not any("fragment_unconditional" in h for h in hits),
               "positive control: the canary crate's conditional store (entry().and_modify) must be reported and its unconditional twin must not (reported: %s)" % hits, "canary/rs/src/lib.rs")
    # ---------------------------------------------------------------- C05.9
    rep.rule("C05.10", "the intersection of two object atoms applies an index signature to the keys only the other operand declares")
    mapping_intersection_rule(cx, rep, "C05.10")
    rep.rule("C05.11", "an accumulated list prefix is padded with its own rest element")
    own_rest_padding_rule(cx, rep, "C05.11")
    rep.rule("C05.9", "`inhabited` is answered only where no negative is left or where the remaining negatives answered it")
    n69 = every_negative_rule(F, rep, "C05.9", engine)
    rep.floor("C05.9", "returns of the base answer outside the base case", n69, 2)
    if cx.canary is not None:
        hits = every_negative_rule(cx.canary, None, None, lambda f: True, collect=True)
        rep.ob("C05.9", "control/canary-first-negative-only", any("peel_first_only" in h for h in hits) and not any("peel_all" in h for h in hits),
               "positive control: the canary crate's procedure that answers next to the first negative must be reported and its complete twin must not (reported: %s)" % hits, "canary/rs/src/lib.rs")
    # ---------------------------------------------------------------- C05.7
    rep.rule("C05.7", "twin procedures of the subtyping engine agree (exact / open, number / string, list / set, map / mapping)")
    import twins
    twins.twin_rule(cx, rep, "C05.7", r"subtyping/(mapping|semtype|subtype|bdd|dnf|mod)\.rs", floor=8)


SETOPS = re.compile(r"::(diff|intersect|union|complement)$")


def fragment_store_rule(F, rep, rid, select, collect=False):
    """The emptiness procedures split `pos \\ neg` dimension by dimension: for a key / position they compute
    d = pos[k] \\ neg[k] and, when d is inhabited, recurse on the fragment `pos with k := d`.  The recursion is only
    the formula written down if d really is stored into the fragment: a store that happens on some paths only (a
    closure handed to `Entry::and_modify`, an `if let Some(slot) = get_mut(..)`) leaves the old, wider value in place
    for some inputs and the procedure answers `not empty` (not assignable) for pairs that are.
    Decided per function of the engine that calls itself (or its SCC): for every named local d that is the result of a
    set operation (diff / intersect / union / complement) and is MOVED somewhere on a path to a recursive call that its
    definition dominates, every path from the definition to that call passes a block where d is moved directly into a
    call argument, an aggregate or a place - moving it into a closure does not count, the closure need not run."""
    import collections as _c
    hits = []
    n = 0
    sccs = [c for c in F.sccs(list(F.fns)) if len(c) > 1 or c[0] in F.edges.get(c[0], ())]
    scc_of = {g: i for i, c in enumerate(sccs) for g in c}
    for g in sorted(scc_of):
        f = F.fns[g]
        if not f.mir or not select(f) or f.kind == "Closure":
            continue
        rec_calls = [c for c in f.calls if any(scc_of.get(t) == scc_of[g] for t in (c.local_target or []))]
        if not rec_calls:
            continue
        flow = FnFlow(f)
        O = Origins(flow)
        dom = flow.dominators()
        locs = f.mir["locals"]
        for D, l in enumerate(locs):
            if not l.get("name") or (l.get("ty") or "").startswith("&"):
                continue
            defs = flow.defs_of(D)
            if len(defs) != 1:
                continue
            if not any(o[0] == "call" and SETOPS.search(strip_generics(o[1])) for o in O.of_local(D)):
                continue
            dbb = defs[0][0]
            A = {a for a in flow.alias_closure({D}) if not (locs[a].get("ty") or "").startswith("&")}
            store, closure = set(), set()
            for bi, b in enumerate(flow.blocks):
                for st in b["stmts"]:
                    if st["k"] != "Assign":
                        continue
                    rv = st["rv"]
                    ops = rv.get("ops") if rv["k"] == "Aggregate" else ([rv.get("op")] if rv["k"] in ("Use", "Cast") else [])
                    for o in ops or []:
                        pl = op_place(o) if o else None
                        if pl is not None and pl["l"] in A and not pl["p"] and o.get("k") == "move":
                            if rv["k"] == "Aggregate" and rv.get("agg") == "Closure":
                                closure.add(bi)
                            elif rv["k"] == "Aggregate" or st["place"]["p"] or st["place"]["l"] not in A:
                                # into a struct / tuple, through a projection (*slot = d, x.f = d) or into another local that is not a plain alias
                                if st["place"]["l"] not in A:
                                    store.add(bi)
                t = b["term"]
                if t["k"] == "Call":
                    m = (t["callee"].get("path") or "").rsplit("::", 1)[-1]
                    if m in PASS_THROUGH_NAMES:
                        continue
                    for o in t["args"]:
                        pl = op_place(o)
                        if pl is not None and pl["l"] in A and not pl["p"] and o.get("k") == "move":
                            store.add(bi)
            if not store and not closure:
                continue
            for c in rec_calls:
                if dbb not in dom.get(c.bb, ()) or dbb == c.bb:
                    continue
                reach_c = flow.reachable_from(dbb)
                if c.bb not in reach_c:
                    continue
                # is d consumed at all on the way to this call?
                on_way = [b for b in (store | closure) if b in reach_c and c.bb in flow.reachable_from(b)]
                if not on_way:
                    continue
                n += 1
                avoid = flow.reachable_from(dbb, stop=store)
                bad = c.bb in avoid and c.bb not in store
                key = "%s/%s->%s" % (f.id.rsplit("::", 1)[-1], l["name"], strip_generics(c.path).rsplit("::", 1)[-1])
                if collect:
                    if bad:
                        hits.append(f.id)
                    continue
                rep.ob(rid, key, not bad,
                       "%s: `%s` (the result of a set operation) is stored into the fragment handed to the recursive call %s on some paths only%s: for the inputs that take the other path the old value stays in place and the procedure decides a different formula (pairs that are assignable are reported as not assignable, or the reverse)" % (
                           f.id, l["name"], c.path, " (it is moved into a closure, which the callee need not run)" if closure else ""),
                       "%s:%s" % (f.file, c.line), sample={"fn": f.id, "local": l["name"], "store_blocks": sorted(store), "closure_blocks": sorted(closure), "call_bb": c.bb})
    return hits if collect else n


PASS_THROUGH_NAMES = {"deref", "borrow", "as_ref", "clone", "branch", "from_residual", "into", "from", "unwrap", "expect", "drop"}
MUTATORS = {"push", "insert", "extend", "clear", "remove", "pop", "truncate", "swap", "sort", "retain", "append", "drain", "push_str"}
VIEW = {"deref", "deref_mut", "as_mut_slice", "as_slice", "borrow_mut", "as_mut", "index_mut", "get_mut", "iter_mut"}


def scratch_rule(F, rep, rid, select, collect=False):
    """In a function that calls itself (or its SCC) from inside a loop, a local that the function owns, that is
    defined before the loop, written inside it and handed to the recursive call is state shared between the
    alternatives the loop explores: the second alternative sees what the first one wrote.  Accepted: the local is
    (re)defined inside the loop, or every path from the recursive call back to the loop header writes it again
    (restoration)."""
    from rules.c04 import natural_loops
    nodes = [g for g, f in F.fns.items() if f.mir]
    scc_of = {}
    for i, comp in enumerate(F.sccs(nodes)):
        if len(comp) > 1 or comp[0] in F.edges.get(comp[0], ()):
            for g in comp:
                scc_of[g] = i
    n = 0
    hits = []
    for g in sorted(scc_of):
        f = F.fns[g]
        if not select(f):
            continue
        flow = FnFlow(f)
        loops = natural_loops(flow)
        if not loops:
            continue
        argc = f.mir["arg_count"]
        for h, body in sorted(loops.items()):
            rec = [c for c in f.calls if c.bb in body and any(scc_of.get(t) == scc_of[g] for t in (c.local_target or []))]
            if not rec:
                continue
            n += len(rec)
            # owned user locals defined (only) outside this loop
            for X, info in enumerate(f.mir["locals"]):
                if X <= argc or not info.get("name"):
                    continue
                defs = flow.defs_of(X)
                if not defs or (info.get("ty") or "").startswith("&"):
                    continue
                A = flow.alias_closure({X}, through_calls=VIEW)
                passed = [c for c in rec if any((op_place(a) or {}).get("l") in A for a in c.term["args"])]
                if not passed:
                    continue
                if any(bi in body for bi, _ in defs):
                    if not collect:
                        rep.ob(rid, "%s/%s" % (strip_generics(f.id), info["name"]), True,
                               sample={"fn": f.id, "local": info["name"], "verdict": "created inside the loop: fresh for every alternative"})
                    continue
                wblocks = set()
                for bi in body:
                    b = flow.blocks[bi]
                    for st in b["stmts"]:
                        if st["k"] == "Assign" and st["place"]["p"] and (st["place"]["l"] in A):
                            wblocks.add(bi)
                    t = b["term"]
                    if t["k"] == "Call":
                        m = (t["callee"].get("path") or "").rsplit("::", 1)[-1]
                        if m in MUTATORS and t["args"] and (op_place(t["args"][0]) or {}).get("l") in A:
                            wblocks.add(bi)
                if not wblocks:
                    continue
                # restoration: from every recursive call that receives X, every path back to the header writes X again
                bad = None
                for c in passed:
                    seen = set()
                    work = [s_ for s_ in flow.succ(c.bb) if s_ in body]
                    while work:
                        b = work.pop()
                        if b == h:
                            bad = c
                            break
                        if b in seen or b in wblocks or b not in body:
                            continue
                        seen.add(b)
                        work.extend(flow.succ(b))
                    if bad:
                        break
                key = "%s/%s" % (strip_generics(f.id), info["name"])
                if collect:
                    if bad:
                        hits.append(key)
                    continue
                rep.ob(rid, key, bad is None,
                       "%s: `%s` is created before the loop, written inside it and passed to the recursive call %s without being re-created or restored per iteration: the alternative tried in one iteration is still visible in the next, so the search decides a different formula than the one written down" % (
                           f.id, info["name"], (bad.path if bad else "")), "%s:%s" % (f.file, bad.line if bad else f.line))
    return hits if collect else n


def strip_generics(s):
    out, d = [], 0
    for ch in s:
        if ch == "<":
            d += 1
        elif ch == ">":
            d -= 1
        elif d == 0:
            out.append(ch)
    return "".join(out).replace("::::", "::")


def check_region(rep, F, f, what, fam, body, line):
    ms = family_mentions(body)
    if not ms:
        return 0
    bad = [m for m in ms if m[0] != fam]
    key = "%s/%s" % (f.id.rsplit("::", 1)[-1], what)
    if bad:
        rep.ob("C05.2", key, False,
               "%s in %s (family %s) uses %s of family %s: an atom index is interpreted in another family's table" % (
                   what, f.id, fam, bad[0][1], bad[0][0]), "%s:%s" % (f.file, bad[0][2]))
    else:
        rep.ob("C05.2", key, True, sample={"fn": f.id.rsplit("::", 1)[-1], "region": what, "family": fam, "mentions": len(ms)})
    return 1


# ---------------------------------------------------------------------------
# C05.9

def _const_of(e):
    """the constant an expression evaluates to, through Ok(..) / Some(..) / blocks: ('variant', path) / ('bool', v)"""
    while True:
        if e is None:
            return None
        k = e["k"]
        if k == "BlockExpr":
            b = e["block"]
            if b["stmts"] or b.get("expr") is None:
                return None
            e = b["expr"]
            continue
        if k == "Call" and (e.get("callee") or "").rsplit("::", 1)[-1] in ("Ok", "Some") and e.get("args"):
            e = e["args"][0]
            continue
        if k in ("DropTemps", "Cast"):
            e = e.get("e")
            continue
        if k == "Lit" and e.get("lit") == "bool":
            return ("bool", str(e.get("v")).lower())
        if k == "Path" and e.get("res") in ("def", "ctor") and e.get("def"):
            return ("variant", e["def"])
        if k == "Struct" and not e.get("fields") and e.get("def"):
            return ("variant", e["def"])
        return None


def every_negative_rule(F, rep, rid, select, collect=False):
    """The emptiness of  pos \\\\ (n1 | n2 | ..)  is decided by peeling one negative at a time: each call looks at the
    first negative and recurses on the rest.  `Inhabited` may therefore be answered only where no negative is left, or
    where the recursive call on the REMAINING negatives answered it: a value that escapes n1 (a key / an element outside
    n1's domain) may still lie in n2.  A direct `inhabited` return next to the first negative makes S <= T1 | T2 depend on
    the order of T1 and T2.  Decided per recursive function of the engine that has a base case on its negatives
    parameter (`match neg { None => X }`, `if negs.is_empty() { return X }`): every other return of the constant X
    is control-dependent on the result of a call back into the function's recursion."""
    hits = []
    n = 0
    sccs = [c for c in F.sccs(list(F.fns)) if len(c) > 1 or c[0] in F.edges.get(c[0], ())]
    scc_of = {g: i for i, c in enumerate(sccs) for g in c}
    for g in sorted(F.hir):
        f = F.fns.get(g)
        if f is None or g not in scc_of or not select(f) or f.kind == "Closure":
            continue
        tree = F.hir[g]
        params = {p.get("lid"): p for p in tree.get("params", []) if isinstance(p, dict) and p.get("k") == "P.Binding"}
        neg_lids = {lid for lid, p in params.items() if re.match(r"^&(mut )?(std::option::Option<std::rc::Rc<[\w:]+>>|\[std::rc::Rc<[\w:]+>\])$", (p.get("ty") or "").strip())}
        if not neg_lids:
            continue
        parents = {}
        for x in walk(tree["body"]):
            for c in _children(x):
                parents[id(c)] = x

        def root_lid(e):
            while e["k"] in ("AddrOf", "Unary", "DropTemps", "Cast"):
                e = e.get("e")
            return e.get("lid") if e["k"] == "Path" and e.get("res") == "local" else None
        base = None
        base_nodes = set()
        for x in walk(tree["body"]):
            if x["k"] == "Match" and root_lid(x["scrut"]) in neg_lids:
                for a in x["arms"]:
                    if (a["pat"].get("def") or "").endswith("::None") or (a["pat"]["k"] == "P.Expr" and "None" in str(a["pat"])):
                        c = _const_of(a["body"])
                        rets = [r for r in walk(a["body"]) if r["k"] == "Ret"]
                        if c is None and rets:
                            c = _const_of(rets[0].get("e"))
                        if c is not None:
                            base = c
                            base_nodes |= {id(y) for y in walk(a["body"])}
            if x["k"] == "If" and x["cond"]["k"] == "MethodCall" and x["cond"]["method"] == "is_empty" and root_lid(x["cond"]["recv"]) in neg_lids:
                rets = [r for r in walk(x["then"]) if r["k"] == "Ret"]
                c = _const_of(rets[0].get("e")) if rets else _const_of(x["then"])
                if c is not None:
                    base = c
                    base_nodes |= {id(y) for y in walk(x["then"])}
            # `let Some(n) = neg else { return X }`, `let Some((first, rest)) = negs.split_first() else { return X }`
            if x["k"] == "LetStmt" and x.get("els") is not None and x.get("init") is not None:
                i = x["init"]
                while i["k"] == "MethodCall" and i["method"] in ("split_first", "first", "split_last", "last", "as_ref", "as_deref", "get") :
                    i = i["recv"]
                if root_lid(i) in neg_lids:
                    rets = [r for r in walk(x["els"]) if r["k"] == "Ret"]
                    c = _const_of(rets[0].get("e")) if rets else None
                    if c is not None:
                        base = c
                        base_nodes |= {id(y) for y in walk(x["els"])}
            # `match negs.split_first() { None => X, .. }`
            if x["k"] == "Match" and x["scrut"]["k"] == "MethodCall" and x["scrut"]["method"] in ("split_first", "first", "split_last", "last") and root_lid(x["scrut"]["recv"]) in neg_lids:
                for a in x["arms"]:
                    if (a["pat"].get("def") or "").endswith("::None"):
                        c = _const_of(a["body"])
                        rets = [r for r in walk(a["body"]) if r["k"] == "Ret"]
                        if c is None and rets:
                            c = _const_of(rets[0].get("e"))
                        if c is not None:
                            base = c
                            base_nodes |= {id(y) for y in walk(a["body"])}
        if base is None:
            continue

        # an expression for the REMAINING negatives: same type as the negatives parameter, but not the parameter itself
        # (`neg.next`, `&negs[1..]`, a local bound to one of those)
        def norm_ty(t):
            return re.sub(r"^(&(mut )?)+", "", (t or "").strip())
        neg_tys = {norm_ty(params[l].get("ty")) for l in neg_lids}

        def is_rec_call(x):
            """a call back into the recursion that is handed the remaining negatives"""
            if x["k"] not in ("Call", "MethodCall"):
                return False
            cal = x.get("callee") if x["k"] == "Call" else (x.get("resolved") or x.get("callee"))
            tg = F._callee_gid(f.crate, cal) if cal else None
            if tg is None or scc_of.get(tg) != scc_of[g]:
                return False
            args = ([x["recv"]] if x["k"] == "MethodCall" else []) + list(x.get("args") or [])
            for a in args:
                for y in walk(a):
                    if norm_ty(y.get("ty")) in neg_tys and not (y["k"] == "Path" and y.get("lid") in neg_lids):
                        return True
            return False
        lets = {}
        for x in walk(tree["body"]):
            if x["k"] == "LetStmt" and x.get("init") is not None and x["pat"].get("k") == "P.Binding":
                lets[x["pat"]["lid"]] = x["init"]

        def depends_on_recursion(node):
            cur = node
            while id(cur) in parents:
                par = parents[id(cur)]
                test = None
                if par["k"] == "If" and (par.get("then") is cur or par.get("else") is cur):
                    test = par["cond"]
                elif par["k"] == "Arm" or (par["k"] == "Match" and cur is not par.get("scrut")):
                    m = par if par["k"] == "Match" else parents.get(id(par))
                    test = m.get("scrut") if m is not None else None
                if test is not None:
                    nodes_ = list(walk(test))
                    for y in list(nodes_):
                        if y["k"] == "Path" and y.get("lid") in lets:
                            nodes_ += list(walk(lets[y["lid"]]))
                    if any(is_rec_call(y) for y in nodes_):
                        return True
                cur = par
            return False
        sites = []
        for x in walk(tree["body"]):
            if id(x) in base_nodes:
                continue
            if x["k"] == "Ret" and _const_of(x.get("e")) == base:
                sites.append(x)
        # a recursive call returned directly (`return f(rest)`) is of course fine and has no constant
        ordinal = 0
        for x in sites:
            n += 1
            ok = depends_on_recursion(x)
            if collect:
                if not ok:
                    hits.append(g)
                continue
            key = "%s/direct-answer#%d" % (g.rsplit("::", 1)[-1], ordinal)
            if not ok:
                ordinal += 1
            rep.ob(rid, key if not ok else "%s/answer-from-recursion@%d" % (g.rsplit("::", 1)[-1], n), ok,
                   "%s answers `%s` - what it answers when no negative is left - next to the FIRST negative, without asking the remaining ones: a value that escapes this negative may lie in a later one, so `S <= T1 | T2` is decided differently from `S <= T2 | T1` (and wrongly for one of them)" % (g, base[1].rsplit("::", 1)[-1] if base[0] == "variant" else base[1]),
                   "%s:%s" % (f.file, x["line"]), sample={"fn": g, "base_answer": base[1], "line": x["line"]})
    return hits if collect else n


def mapping_intersection_rule(cx, rep, rid):
    """The intersection of two object atoms is computed key by key.  A key that only ONE operand declares is still
    constrained by the OTHER operand's index signature (`{name: T} & Record<string, V>` has `name: T & V`); taking
    `unknown` for the operand that does not declare it leaves `name: T`, and then `X extends X` fails for such an
    intersection (X \\ X keeps the part of T outside V) and an empty intersection (`{name: number} &
    Record<string, string>`) is not recognised as `never`.  Decided on the function of the subtyping engine that
    intersects two mapping atoms: inside the loop over the key names, the member type taken for an operand goes
    through code (the function itself or a helper it calls) that reads that atom's `indexed_properties`."""
    F = cx.rs
    from facts import walk as hwalk
    fns = [g for g, f in F.fns.items() if g in F.hir and f.kind != "Closure" and "/src/subtyping/" in (f.file or "")
           and len([i for i in (f.inputs or []) if "MappingAtomicType" in (i or "")]) == 2 and "MappingAtomicType" in (f.output or "")]
    if len(fns) != 1:
        rep.anchor_missing(rid, "the function that intersects two mapping atoms; found %d" % len(fns))
        return
    g = fns[0]
    f = F.fns[g]
    # the per-key loop may live in the function itself or in a private helper it delegates to; an iterator chain
    # (`names.map(|name| ..)`) counts as a loop
    from facts import walk_inlined
    loops = []
    for x, _o in walk_inlined(F, g, depth=2, private_only=True):
        if x["k"] == "Loop" and x.get("src") == "ForLoop":
            loops.append(x)
        elif x["k"] == "Closure" and any(y["k"] == "MethodCall" and y["method"] == "intersect" for y in hwalk(x)):
            loops.append(x)
    n = 0
    for lp in loops:
        # the loop over the key names: its body intersects the two member types
        if not any(x["k"] == "MethodCall" and x["method"] == "intersect" for x in hwalk(lp)):
            continue
        n += 1
        def reads_ix(e, depth=0, seen=None):
            """the code reads an atom's `indexed_properties`, itself or through the local functions it calls"""
            seen = seen if seen is not None else {g}
            for x in hwalk(e):
                if x["k"] == "Field" and x["name"] == "indexed_properties":
                    return True
                if x["k"] in ("Call", "MethodCall") and depth < 3:
                    tg = F._callee_gid(f.crate, (x.get("resolved") or x.get("callee") or ""))
                    if tg in F.hir and tg not in seen and "/src/subtyping/" in (F.fns[tg].file or ""):
                        seen.add(tg)
                        if reads_ix(F.hir[tg]["body"], depth + 1, seen):
                            return True
            return False
        reads = reads_ix(lp)
        rep.ob(rid, "%s/missing-key-consults-index-signature" % g.rsplit("::", 1)[-1], reads,
               "%s intersects two object atoms key by key and never looks at `indexed_properties` while doing so: a key declared by one operand only is not intersected with the other operand's index signature, so `{name: string | null} & Record<string, string>` keeps `name: string | null` - `X extends X` is then decided `no` for it and `{name: number} & Record<string, string>` is not recognised as empty" % g,
               "%s:%s" % (f.file, lp.get("line")), sample={"fn": g})
    rep.floor(rid, "per-key loops of the mapping intersection", n, 1)


def own_rest_padding_rule(cx, rep, rid):
    """A list type is a prefix plus a rest element; positions beyond the prefix belong to the rest element OF THAT
    TYPE.  When the accumulated intersection lists fewer positions than the next member, its prefix is padded - with
    the accumulated rest element, and it is the accumulated rest element that must not be `never`.  Padding with the
    NEXT member's rest element (`lt.items`) makes `string[] & [string, string]` empty or not depending on which of the
    two comes first (repaired by 258f690).  Decided: in the subtyping engine, a `push` that pads a local vector of
    types inside `if <vec>.len() < ..` pushes a value that comes from a LOCAL (the accumulator), not from a field of a
    list atom, and an `is_never` test in the same `if` is applied to a local as well."""
    F = cx.rs
    from facts import walk as hwalk
    n = 0
    for g, t in sorted(F.hir.items()):
        f = F.fns.get(g)
        if f is None or "/src/subtyping/" not in (f.file or ""):
            continue
        for i in hwalk(t["body"]):
            if i["k"] != "If":
                continue
            c = i["cond"]
            if not (c["k"] == "Binary" and c.get("op") == "Lt" and c["l"]["k"] == "MethodCall" and c["l"]["method"] == "len"
                    and c["l"]["recv"]["k"] == "Path" and c["l"]["recv"].get("res") == "local" and "Vec<" in (c["l"]["recv"].get("ty") or "")):
                continue
            vec = c["l"]["recv"]["lid"]
            pushes = [x for x in hwalk(i["then"]) if x["k"] == "MethodCall" and x["method"] in ("push", "resize", "extend", "resize_with") and x["recv"]["k"] == "Path" and x["recv"].get("lid") == vec]
            if not pushes:
                continue

            def base(e):
                while e["k"] in ("AddrOf", "Unary") or (e["k"] == "MethodCall" and e["method"] in ("clone", "as_ref", "borrow")):
                    e = e["recv"] if e["k"] == "MethodCall" else e["e"]
                return e
            for x in pushes:
                n += 1
                b = base(x["args"][-1])          # push(v) / resize(n, v)
                if x["method"] in ("extend", "resize_with"):
                    # extend((a..b).map(|_| v.clone())) / extend(repeat(v).take(n)) / resize_with(n, || v.clone())
                    for y in hwalk(x["args"][-1]):
                        if y["k"] == "Closure":
                            yb = y["body"]
                            while yb.get("k") == "BlockExpr" and not yb["block"].get("stmts") and yb["block"].get("expr"):
                                yb = yb["block"]["expr"]
                            b = base(yb)
                            break
                        if y["k"] == "Call" and "iter::repeat" in (y.get("callee") or "") and y.get("args"):
                            b = base(y["args"][0])
                            break
                own = b["k"] == "Path" and b.get("res") == "local"
                rep.ob(rid, "%s/pad-with-own-rest" % g.rsplit("::", 1)[-1], own,
                       "%s pads the accumulated prefix with a value that is not its own accumulated rest element (a field of another list atom): positions the accumulated type does not list belong to ITS rest, so the result of `string[] & [string, string]` depends on member order" % g,
                       "%s:%s" % (f.file, x["line"]), sample={"fn": g})
            for x in hwalk(i["then"]):
                if x["k"] == "MethodCall" and x["method"] == "is_never":
                    b = base(x["recv"])
                    rep.ob(rid, "%s/never-test-on-own-rest" % g.rsplit("::", 1)[-1], b["k"] == "Path" and b.get("res") == "local",
                           "%s decides `empty` from the rest element of the NEXT member while padding the accumulated prefix: it is the accumulated rest element that fills those positions" % g,
                           "%s:%s" % (f.file, x["line"]))
    rep.floor(rid, "paddings of an accumulated prefix", n, 1)


def mixed_family_arm_rule(cx, rep, rid):
    """The index inside `Atom::List(i)`, `Atom::Set(i)`, `Atom::Mapping(i)`, `Atom::Map(i)` is a position in THAT
    family's table; the four tables are unrelated.  An or-pattern that binds the index of two families to one name
    (`Atom::List(a) | Atom::Set(a) => ctx.get_list_atomic(*a)`) reads the index of one family in the table of the
    other: a Set is then materialised from whatever array happens to sit at the same position (or the lookup
    panics).  Decided for the subtyping engine: an arm whose pattern names atom variants of more than one family and
    binds their payload does not touch a family-specific table / constructor at all."""
    F = cx.rs
    n = 0
    for gid in sorted(F.hir):
        f = F.fns.get(gid)
        if f is None or not (f.file or "").startswith("packages/beff-core/src/subtyping"):
            continue
        for m in walk(F.hir[gid]["body"]):
            if m["k"] != "Match":
                continue
            for a in m["arms"]:
                fams = {}
                for p in walk(a["pat"]):
                    mm = VARIANT_RE.search(p.get("def") or "")
                    # (only the atoms carry a table index; ProperSubtype::Mapping(bdd) | ::Map(bdd) bind a diagram)
                    if mm and "::Atom::" in (p.get("def") or "") and p["k"] in ("P.TupleStruct", "P.Struct") and any(q["k"] == "P.Binding" for q in walk(p)):
                        fams[mm.group(1).lower()] = p
                if len(fams) < 2:
                    continue
                n += 1
                ms = family_mentions(a["body"])
                rep.ob(rid, "%s/mixed-arm/%s" % (gid.rsplit("::", 1)[-1], "+".join(sorted(fams))), not ms,
                       "%s binds the table index of the atom families %s to one name and then uses %s: the index of one family is read in another family's table (a Set is materialised from the array that happens to have the same index)" % (
                           gid, sorted(fams), ms[0][1] if ms else ""), "%s:%s" % (f.file, a["line"]), sample={"fn": gid, "families": sorted(fams)})
    rep.ob(rid, "mixed-arms-scanned", True, sample={"arms_binding_two_families": n})


# ---------------------------------------------------------------------------------------------------- C05.12
def _walk_node_inlined(F, node, crate, depth, seen=None):
    """walk() over a HIR subtree that also descends into local callees (depth levels); yields (node, owner)"""
    seen = seen if seen is not None else set()
    for n in walk(node):
        yield n, None
        if depth > 0 and n["k"] in ("Call", "MethodCall"):
            cal = n.get("callee") if n["k"] == "Call" else (n.get("resolved") or n.get("callee"))
            tg = F._callee_gid(crate, cal) if cal else None
            if tg in F.hir and tg not in seen:
                seen.add(tg)
                for x, o in _walk_node_inlined(F, F.hir[tg]["body"], crate, depth - 1, seen):
                    yield x, (o or tg)


def _ctx_field(n):
    """name of the SemTypeContext field a receiver expression denotes (through & / deref), else None"""
    while n is not None and n.get("k") in ("AddrOf", "Unary", "Deref", "DropTemps") and isinstance(n.get("e"), dict):
        n = n["e"]
    if n is not None and n.get("k") == "Field" and (n.get("adt") or "").endswith("SemTypeContext"):
        return n["name"]
    return None


def revocable_memo_rule(F, rep, entries):
    """While an emptiness question about a recursive type is open the type is ASSUMED empty (the Undefined mark is
    read as IsEmpty).  An inner `empty` answer computed meanwhile may rest on that assumption; if the outer question
    turns out NOT empty the assumption is refuted and the inner answer must not stay in the memo (fix 16acbbb:
    `[Y, X] extends never` was decided differently from `[X, Y] extends never`).  Accepted idioms: (i) a revocation
    log - `empty` answers are pushed onto a Vec field of the context, the entry point takes the log's length BEFORE the
    computation and, on the not-empty outcome, hands it to a function that pops the log back to that length and removes
    each popped key from the memo table its entry point memoises in; (ii) the not-empty outcome clears the memo tables.
    The dispatch on the outcome may sit in the entry point or in a helper that is handed the computed status (its
    other arguments - the mark, a closure building the log entry - are read at the call)."""
    rep.rule("C05.12", "an `empty` answer memoised while an outer emptiness question is open is revoked when that question turns out not empty")
    for f, ins in entries:
        name = f.id
        tree = F.hir.get(f.id)
        if tree is None:
            rep.anchor_missing("C05.12", "typed HIR of %s" % name)
            continue
        body = tree["body"]
        memo_field, key_lids = None, set()
        for n in walk(body):
            if n["k"] == "MethodCall" and n.get("method") == "insert" and any((x.get("def") or "").endswith("MemoEmpty::Undefined") for a in n["args"] for x in walk(a)):
                memo_field = _ctx_field(n["recv"])
                key_lids = {x.get("lid") for x in walk(n["args"][0]) if x["k"] == "Path" and x.get("res") == "local"}
        if memo_field is None:
            rep.anchor_missing("C05.12", "the Undefined insert of %s in typed HIR" % name)
            continue
        stmts = body["block"]["stmts"] if body.get("k") == "BlockExpr" else []
        comp_i, comp_lid = None, None
        for i, st in enumerate(stmts):
            if st["k"] == "LetStmt" and st.get("init") and st["pat"]["k"] == "P.Binding" and (st["pat"].get("ty") or "").endswith("IsEmptyStatus"):
                if any(x["k"] in ("Call", "MethodCall") and F._callee_gid(f.crate, (x.get("callee") if x["k"] == "Call" else (x.get("resolved") or x.get("callee"))) or "") in F.hir
                       for x in walk(st["init"])):
                    comp_i, comp_lid = i, st["pat"].get("lid")
                    break
        if comp_i is None:
            rep.anchor_missing("C05.12", "the let-bound result of the emptiness computation in %s" % name)
            continue

        def dispatch(nodes, status_lid):
            ne, em = [], []
            for st in nodes:
                for n in walk(st):
                    if n["k"] == "Match" and any(x["k"] == "Path" and x.get("lid") == status_lid for x in walk(n["scrut"])):
                        named = {(b["pat"].get("def") or "").rsplit("::", 1)[-1] for b in n["arms"]}
                        for a in n["arms"]:
                            d = (a["pat"].get("def") or "")
                            if d.endswith("IsEmptyStatus::NotEmpty"):
                                ne.append(a["body"])
                            elif d.endswith("IsEmptyStatus::IsEmpty"):
                                em.append(a["body"])
                            elif a["pat"]["k"] in ("P.Wild", "P.Binding"):
                                (em if "NotEmpty" in named else ne).append(a["body"])
                    if n["k"] == "If" and n["cond"]["k"] in ("Binary", "Let", "Call", "MethodCall", "Unary") and \
                            any(x["k"] == "Path" and x.get("lid") == status_lid for x in walk(n["cond"])):
                        defs = [(x.get("def") or "") for x in walk(n["cond"])]
                        neg = n["cond"]["k"] == "Unary" or (n["cond"]["k"] == "Binary" and n["cond"].get("op") == "Ne")
                        is_ne = any(d.endswith("IsEmptyStatus::NotEmpty") for d in defs)
                        is_e = any(d.endswith("IsEmptyStatus::IsEmpty") for d in defs)
                        if is_ne or is_e:
                            then_ne = (is_ne and not neg) or (is_e and neg)
                            (ne if then_ne else em).append(n["then"])
                            if n.get("else"):
                                (em if then_ne else ne).append(n["else"])
            return ne, em
        # frame: where the dispatch sits, and how its parameters read at the call in the entry point
        frame_tree, argmap, frame_gid = tree, {}, f.id
        not_empty_regions, empty_regions = dispatch(stmts[comp_i + 1:], comp_lid)
        if not not_empty_regions and not empty_regions:
            for st in stmts[comp_i + 1:]:
                for n in walk(st):
                    if n["k"] not in ("Call", "MethodCall"):
                        continue
                    args = ([n["recv"]] if n["k"] == "MethodCall" else []) + list(n["args"])
                    pos = [ai for ai, a in enumerate(args) if any(x["k"] == "Path" and x.get("lid") == comp_lid for x in walk(a)) and len(list(walk(a))) <= 3]
                    cal = n.get("callee") if n["k"] == "Call" else (n.get("resolved") or n.get("callee"))
                    tg = F._callee_gid(f.crate, cal or "")
                    if not pos or tg not in F.hir:
                        continue
                    ht = F.hir[tg]
                    hp = [p.get("lid") if p["k"] == "P.Binding" else None for p in ht["params"]]
                    if pos[0] >= len(hp) or hp[pos[0]] is None:
                        continue
                    hstm = ht["body"]["block"]["stmts"] + ([ht["body"]["block"]["expr"]] if ht["body"]["block"].get("expr") else []) if ht["body"].get("k") == "BlockExpr" else [ht["body"]]
                    ne2, em2 = dispatch(hstm, hp[pos[0]])
                    revokes2 = any(x["k"] == "MethodCall" and x.get("method") in ("remove", "clear", "retain", "split_off", "remove_entry") and _ctx_field(x["recv"]) == memo_field
                                   for reg in ne2 for x, _o in _walk_node_inlined(F, reg, f.crate, 2))
                    if (ne2 or em2) and (revokes2 or not (not_empty_regions or empty_regions)):
                        not_empty_regions, empty_regions = ne2, em2
                        frame_tree, frame_gid = ht, tg
                        argmap = {hp[ai]: a for ai, a in enumerate(args) if ai < len(hp) and hp[ai] is not None}
        def in_caller(e):
            """an expression of the frame, read in the entry point (helper parameters replaced by the arguments)"""
            e2 = e
            while isinstance(e2, dict) and e2.get("k") in ("AddrOf", "Deref", "DropTemps"):
                e2 = e2["e"]
            if isinstance(e2, dict) and e2.get("k") == "Path" and e2.get("lid") in argmap:
                return argmap[e2["lid"]]
            return e
        # (1) the not-empty outcome revokes
        revokers, cleared = [], False
        for reg in not_empty_regions:
            for x, owner in _walk_node_inlined(F, reg, f.crate, 2):
                if x["k"] == "MethodCall" and x.get("method") in ("remove", "clear", "retain", "split_off", "remove_entry") and _ctx_field(x["recv"]) == memo_field:
                    if x.get("method") == "clear":
                        cleared = True
                    revokers.append((x, owner))
        rep.ob("C05.12", "%s/not-empty-revokes" % name, bool(revokers),
               "the not-empty outcome of %s removes nothing from %s: `empty` answers computed under the refuted assumption that this type is empty stay memoised "
               "(accepted: a revocation log popped back to the length taken before the computation, or clearing the table)" % (name, memo_field),
               f.loc(), sample={"fn": name, "memo": memo_field, "revoking_sites": len(revokers), "not_empty_regions": len(not_empty_regions), "dispatch_in": frame_gid})
        if not revokers or cleared:
            continue
        call_with_mark = None
        for reg in not_empty_regions:
            for x in walk(reg):
                if x["k"] in ("Call", "MethodCall"):
                    cal = x.get("callee") if x["k"] == "Call" else (x.get("resolved") or x.get("callee"))
                    tg = F._callee_gid(f.crate, cal or "")
                    if tg in F.hir and any(y["k"] == "MethodCall" and y.get("method") in ("remove", "remove_entry") and _ctx_field(y["recv"]) == memo_field
                                           for y, _ in _walk_node_inlined(F, F.hir[tg]["body"], f.crate, 1)):
                        call_with_mark = (x, tg)
        if call_with_mark is None:
            call_with_mark = (None, frame_gid)
        cx, g = call_with_mark
        gtree = F.hir[g]
        # (2) the mark
        log_field, mark_ok, mark_pos = None, False, None
        if cx is not None:
            args = ([cx["recv"]] if cx["k"] == "MethodCall" else []) + list(cx["args"])
            for ai, a in enumerate(args):
                a = in_caller(a)
                for y in walk(a):
                    if y["k"] == "Path" and y.get("res") == "local":
                        for i, st in enumerate(stmts):
                            if st["k"] == "LetStmt" and st["pat"]["k"] == "P.Binding" and st["pat"].get("lid") == y.get("lid") and st.get("init"):
                                lens = [z for z in walk(st["init"]) if z["k"] == "MethodCall" and z.get("method") == "len" and _ctx_field(z["recv"])]
                                if lens:
                                    log_field = _ctx_field(lens[0]["recv"])
                                    mark_ok = i < comp_i
                                    mark_pos = ai
        rep.ob("C05.12", "%s/mark-before-computation" % name, mark_ok,
               "the revocation in %s is not bounded by a length of the log taken before the computation started: answers recorded before this question was opened "
               "would be revoked too, or (mark taken afterwards) none at all" % name, f.loc(), sample={"fn": name, "log": log_field, "mark_taken_before_computation": mark_ok})
        # (3) the empty outcome is logged with this entry point's key
        pushed_variants = set()
        for reg in empty_regions:
            for x in walk(reg):
                if x["k"] == "MethodCall" and x.get("method") == "push" and _ctx_field(x["recv"]) == (log_field or _ctx_field(x["recv"])):
                    payloads = [x["args"][0]]
                    # `push(make_entry())` with make_entry a closure handed in by the entry point
                    for y in walk(x["args"][0]):
                        if y["k"] == "Call" and isinstance(y.get("f"), dict) and y["f"].get("k") == "Path" and y["f"].get("lid") in argmap:
                            c0 = argmap[y["f"]["lid"]]
                            while isinstance(c0, dict) and c0.get("k") in ("AddrOf", "DropTemps"):
                                c0 = c0["e"]
                            if isinstance(c0, dict) and c0.get("k") == "Closure":
                                payloads.append(c0["body"])
                        if y["k"] == "Path" and y.get("lid") in argmap:
                            payloads.append(argmap[y["lid"]])
                    for pl in payloads:
                        for y in walk(pl):
                            if y["k"] in ("Call", "Struct") and (y.get("callee") or y.get("def") or "").startswith("subtyping::"):
                                keys = {z.get("lid") for z in walk(y) if z["k"] == "Path" and z.get("res") == "local"}
                                if keys & key_lids:
                                    pushed_variants.add((y.get("callee") or y.get("def")))
        rep.ob("C05.12", "%s/empty-answer-logged" % name, bool(pushed_variants),
               "the `empty` outcome of %s is not recorded in the revocation log under the key it is memoised under: a later refutation cannot find it" % name,
               f.loc(), sample={"fn": name, "logged_as": sorted(pushed_variants)})
        # (4) the revoker
        ok_family = False
        for n in walk(gtree["body"]):
            if n["k"] == "Match":
                for a in n["arms"]:
                    if any((y.get("def") or "") in pushed_variants for y in walk(a["pat"])):
                        bound = {y.get("lid") for y in walk(a["pat"]) if y["k"] == "P.Binding"}
                        for y in walk(a["body"]):
                            if y["k"] == "MethodCall" and y.get("method") in ("remove", "remove_entry") and _ctx_field(y["recv"]) == memo_field and \
                                    bound & {z.get("lid") for z in walk(y["args"][0]) if z["k"] == "Path" and z.get("res") == "local"}:
                                ok_family = True
            if n["k"] in ("LetStmt", "Let") and n.get("init") is not None and n.get("els") is not None or (n["k"] == "If" and n["cond"].get("k") == "Let"):
                # `let Some(Variant(k)) = log.pop() else { break }` / `if let Variant(k) = e { table.remove(&k) }`
                pat = n["pat"] if n["k"] in ("LetStmt", "Let") else n["cond"]["pat"]
                if any((y.get("def") or "") in pushed_variants for y in walk(pat)):
                    bound = {y.get("lid") for y in walk(pat) if y["k"] == "P.Binding"}
                    for y in walk(gtree["body"]):
                        if y["k"] == "MethodCall" and y.get("method") in ("remove", "remove_entry") and _ctx_field(y["recv"]) == memo_field and \
                                bound & {z.get("lid") for z in walk(y["args"][0]) if z["k"] == "Path" and z.get("res") == "local"}:
                            ok_family = True
        rep.ob("C05.12", "%s/revoker-removes-from-own-table" % name, ok_family,
               "the revoker %s does not remove the keys logged by %s (%s) from %s, the table %s memoises in" % (g, name, sorted(pushed_variants), memo_field, name),
               F.fns[g].loc() if g in F.fns else f.loc(), sample={"fn": name, "revoker": g, "memo": memo_field})
        if g != f.id and g != frame_gid and mark_pos is not None:
            gp = gtree["params"]
            mlid = gp[mark_pos].get("lid") if mark_pos < len(gp) and gp[mark_pos]["k"] == "P.Binding" else None
            bounded = False
            for n in walk(gtree["body"]):
                if n["k"] == "Binary" and n.get("op") in ("Gt", "Ge", "Lt", "Le", "Ne"):
                    sides = [n["l"], n["r"]]
                    plain = [s_ for s_ in sides if s_["k"] == "Path" and s_.get("lid") == mlid]
                    lens = [s_ for s_ in sides if s_["k"] == "MethodCall" and s_.get("method") == "len" and _ctx_field(s_["recv"]) == log_field]
                    if plain and lens:
                        bounded = True
                if n["k"] == "MethodCall" and n.get("method") in ("drain", "split_off", "truncate") and _ctx_field(n["recv"]) == log_field:
                    a0 = n["args"][0] if n["args"] else None
                    if a0 is not None and any(z["k"] == "Path" and z.get("lid") == mlid for z in walk(a0)) and not any(z["k"] == "Binary" for z in walk(a0)):
                        bounded = True
            rep.ob("C05.12", "%s/revoker-pops-to-mark" % name, bounded,
                   "the revoker %s does not walk the log back to exactly the length it is handed (compare `log.len()` with the plain mark, or drain / split_off at it)" % g,
                   F.fns[g].loc() if g in F.fns else f.loc(), sample={"revoker": g, "log": log_field})


# ---------------------------------------------------------------------------------------------------- C05.13 = C01.20
def _only_err(F, crate, n, depth=2):
    """the expression certainly evaluates to an `Err` / diagnostic: `Err(..)`, or a call of a local function all of
    whose value exits are such expressions"""
    from hirpath import _callee
    if n.get("k") == "Call" and (n.get("callee") or "").endswith("::Err"):
        return True
    if n.get("k") in ("Call", "MethodCall") and depth > 0:
        g = _callee(F, crate, n)
        t = F.hir.get(g)
        if t is not None:
            oks = [x for x in walk(t["body"]) if x["k"] == "Call" and (x.get("callee") or "").endswith("::Ok")]
            errs = [x for x in walk(t["body"]) if x["k"] == "Call" and (x.get("callee") or "").endswith("::Err")]
            return bool(errs) and not oks
    return False


def _answer_memo_reads(F, f, region, is_event):
    """ids of the `table.get(key)` reads in `region` that stand for an engine answer (see the caller), and a note about
    reads that do not qualify"""
    OPERANDS = ("check_type", "extends_type")
    lets = {}
    for x in walk(region):
        if x["k"] == "LetStmt" and x.get("init") is not None:
            for b in walk(x["pat"]):
                if b["k"] == "P.Binding":
                    lets[b.get("lid")] = x["init"]

    def deps(e, seen=None):
        seen = seen if seen is not None else set()
        out = set()
        for y in walk(e):
            if y["k"] == "Field" and y.get("name") in OPERANDS + ("true_type", "false_type"):
                out.add(y["name"])
            if y["k"] == "Path" and y.get("res") == "local" and y.get("lid") in lets and y["lid"] not in seen:
                seen.add(y["lid"])
                out |= deps(lets[y["lid"]], seen)
        return out
    engine_lids = {lid for lid, init in lets.items() if any(is_event(y) for y in walk(init))}
    reads, inserts = {}, {}
    for x in walk(region):
        if x["k"] == "MethodCall" and x.get("recv", {}).get("k") == "Field" and x.get("args"):
            tname = x["recv"]["name"]
            if x["method"] in ("get", "get_mut", "contains_key", "remove"):
                reads.setdefault(tname, []).append(x)
            elif x["method"] == "insert" and len(x["args"]) >= 2:
                inserts.setdefault(tname, []).append(x)
    ok, note = set(), ""
    for tname, rs in reads.items():
        ins = inserts.get(tname, [])
        filled_by_engine = bool(ins) and all(any(y["k"] == "Path" and y.get("lid") in engine_lids for y in walk(i_["args"][1])) for i_ in ins)
        # (fills of the table outside the region are not engine answers)
        for g2, t2 in F.hir.items():
            if t2["body"] is region or not (F.fns.get(g2) and F.fns[g2].crate == f.crate):
                continue
            for y in walk(t2["body"]):
                if y["k"] == "MethodCall" and y.get("method") == "insert" and y.get("recv", {}).get("k") == "Field" and y["recv"]["name"] == tname and y["recv"].get("adt") == rs[0]["recv"].get("adt") and g2 != f.id:
                    filled_by_engine = False
        for r_ in rs:
            cover = deps(r_["args"][0])
            keys_ok = all(set(OPERANDS) <= deps(i_["args"][0]) for i_ in ins) and set(OPERANDS) <= cover
            if filled_by_engine and keys_ok:
                ok.add(id(r_))
            elif filled_by_engine:
                note = " (the answers are memoised in `%s`, read at line %s with a key that covers %s only - not %s: two questions that differ in the uncovered operand share one answer)" % (
                    tname, r_["line"], sorted(cover & set(OPERANDS)) or "neither operand", sorted(set(OPERANDS) - cover))
    return ok, note


def engine_decides_rule(F, rep, rid):
    """`Exclude<A, B>` and `A extends B ? X : Y` are DECISIONS of the semantic engine: the value the compiler returns for
    them must have passed through the engine's difference / subtype test.  A path that leaves the handling of the
    operator with a value and without having consulted the engine is a syntactic shortcut that has to re-implement
    assignability for every pair of kinds (the seeded change C01-l did: it forgot `boolean`, `unknown`, references..).
    Decided on the typed HIR, path-sensitively (lib/hirpath.py): in the match arm selected by the `Exclude` builtin
    and in the function that lowers a conditional type, every value exit - `return e` and the tail value, per branch,
    helpers followed - is preceded by the engine call; `?` error exits and diagnostic constructors are exempt."""
    from hirpath import unpreceded_exits
    rep.rule(rid, "Exclude<..> and conditional types are answered by the semantic engine on every path (no syntactic shortcut returns first)")
    regions = []
    for g in sorted(F.hir):
        f = F.fns.get(g)
        if f is None or f.crate == WASM or not (f.file or "").startswith("packages/beff-core/src/frontend"):
            continue
        tree = F.hir[g]
        for n in walk(tree["body"]):
            if n["k"] == "Match":
                for a in n["arms"]:
                    if any((x.get("def") or "").endswith("TsBuiltIn::Exclude") for x in walk(a["pat"])) and \
                            not any((x.get("def") or "").endswith(v) for x in walk(a["pat"]) for v in ("TsBuiltIn::Omit", "TsBuiltIn::Pick", "TsBuiltIn::Record")):
                        regions.append(("Exclude", f, a["body"], "SemTypeOps::diff"))
        if f.kind != "Closure" and any("TsConditionalType" in (t or "") for t in (f.inputs or [])):
            regions.append(("conditional type", f, tree["body"], "SemTypeOps::is_subtype"))
    rep.floor(rid, "operator regions (the Exclude arm, the conditional-type lowering)", len({r[0] for r in regions}), 2)
    for what, f, region, ev in regions:
        def is_event(x, ev=ev):
            return x["k"] == "MethodCall" and ((x.get("callee") or "").endswith(ev) or (x.get("resolved") or "").endswith(ev.rsplit("::", 1)[-1]) and "SemTypeOps" in (x.get("resolved") or x.get("callee") or ""))
        # A memo of the engine's answers is as good as the engine - provided the table is filled with engine answers only
        # and its key covers BOTH operands of the question (seed C05-q keyed it by the site and the checked type: the
        # second instantiation of a generic conditional got the first one's answer).  Such a read counts as the event.
        memo_reads, memo_note = (_answer_memo_reads(F, f, region, is_event) if what == "conditional type" else (set(), ""))
        hits = unpreceded_exits(F, f.crate, region, lambda x, ev_=is_event: ev_(x) or id(x) in memo_reads, lambda e: _only_err(F, f.crate, e), owner=f.id)
        rep.ob(rid, "%s/%s" % (what.replace(" ", "-"), f.id.rsplit("::", 1)[-1]), not hits,
               "the handling of %s in %s returns a value (line %s) on a path that has not consulted the semantic engine (%s): a syntactic shortcut must re-implement assignability for every pair of kinds, and any kind it does not know is silently treated as `not assignable` / `not removed`%s" % (
                   what, f.id, ", ".join(str(h.get("line")) for h in hits[:4]), ev, memo_note),
               f.loc(), sample={"operator": what, "fn": f.id, "engine_call": ev, "value_exits_without_engine": len(hits)})


# ---------------------------------------------------------------------------------------------------- C05.15
def ref_memo_key_rule(F, rep, rid):
    """The converter turns a reference to a named type into an atom once and memoises `reference -> atom index` (that
    is also how recursive types terminate).  A reference is the declaration's name TOGETHER with its type arguments;
    a memo keyed by less - the name alone - gives `Box<string>` and `Box<number>` one atom, so the engine answers
    `Box<string> extends Box<number>` with yes and `Exclude<Box<string> | Box<number>, Box<string>>` is never.
    Decided on the types: every table of the engine context of type Map<K, usize> that the Ref arm of the converter
    reads or fills has K = the payload type of RuntypeKind::Ref, and the key expressions are the matched reference
    itself (no field projection of it)."""
    rep.rule(rid, "the reference -> atom memo of the converter is keyed by the whole reference (name and type arguments)")
    payload = None
    for k, a in F.adts.items():
        if k.endswith("::RuntypeKind") or k == "RuntypeKind":
            for v in a["variants"]:
                if v["name"] == "Ref" and v["fields"]:
                    payload = v["fields"][0]["ty"]
    if payload is None:
        rep.anchor_missing(rid, "RuntypeKind::Ref payload type")
        return
    last = lambda t_: re.sub(r"(\w+::)+", "", (t_ or "").replace("&", "").strip())
    n = 0
    for g, t in sorted(F.hir.items()):
        f = F.fns.get(g)
        if f is None or "/src/subtyping/" not in (f.file or ""):
            continue
        # the arms (or `if let`s) that match a reference
        regions = []
        for x in walk(t["body"]):
            if x["k"] == "Match":
                for a in x["arms"]:
                    if any(p_.get("k") == "P.TupleStruct" and (p_.get("def") or "").endswith("RuntypeKind::Ref") for p_ in walk(a["pat"])):
                        regions.append((a["body"], [b_.get("lid") for b_ in walk(a["pat"]) if b_["k"] == "P.Binding"]))
            if x["k"] == "If" and x["cond"].get("k") == "Let" and any(p_.get("k") == "P.TupleStruct" and (p_.get("def") or "").endswith("RuntypeKind::Ref") for p_ in walk(x["cond"]["pat"])):
                regions.append((x["then"], [b_.get("lid") for b_ in walk(x["cond"]["pat"]) if b_["k"] == "P.Binding"]))
        # the arm may hand the matched reference to a helper (b51 / b59: `RuntypeKind::Ref(name) => self.convert_ref(name, ctx)`):
        # the helper's body is the region then, with its parameter as the bound reference (two levels)
        for _lvl in range(2):
            more = []
            for body, binds, *_o in regions:
                for c in walk(body):
                    if c["k"] not in ("Call", "MethodCall"):
                        continue
                    tg = F._callee_gid(f.crate, (c.get("callee") if c["k"] == "Call" else (c.get("resolved") or c.get("callee"))) or "")
                    if tg not in F.hir or tg == g or any(tg is r_[2] for r_ in regions + more if len(r_) > 2):
                        continue
                    args_ = ([c["recv"]] if c["k"] == "MethodCall" else []) + list(c.get("args") or [])
                    ps_ = F.hir[tg].get("params", [])
                    got = []
                    for ai, a in enumerate(args_):
                        if ai < len(ps_) and any(y["k"] == "Path" and y.get("lid") in binds for y in walk(a)):
                            got += [b_.get("lid") for b_ in walk(ps_[ai]) if b_["k"] == "P.Binding"]
                    if got:
                        more.append((F.hir[tg]["body"], got, tg))
            new_ = [m_ for m_ in more if not any(len(r_) > 2 and r_[2] == m_[2] for r_ in regions)]
            if not new_:
                break
            regions += new_
        for body, binds, *_owner in regions:
            for c in walk(body):
                if c["k"] != "MethodCall" or c.get("method") not in ("get", "insert", "contains_key", "entry", "get_mut") or c["recv"]["k"] != "Field":
                    continue
                m = re.match(r"std::collections::\w+Map<(.+), usize>$", c["recv"].get("ty") or "")
                if not m:
                    continue
                n += 1
                kty = m.group(1)
                key = c["args"][0] if c.get("args") else None
                proj = key is not None and any(z["k"] == "Field" and any(y["k"] == "Path" and y.get("lid") in binds for y in walk(z)) for z in walk(key))
                ok = last(kty) == last(payload) and not proj
                rep.ob(rid, "%s/%s.%s" % (f.name, c["recv"]["name"], c["method"]), ok,
                       "%s memoises the atom of a reference in `%s` keyed by %s%s, but a reference is a %s (name AND type arguments): two instantiations of one generic declaration share an atom - `Box<string> extends Box<number>` is decided yes" % (
                           g, c["recv"]["name"], kty, " (a field of the matched reference)" if proj else "", payload),
                       "%s:%s" % (f.file, c["line"]), sample={"fn": f.name, "table": c["recv"]["name"], "key_type": kty, "reference_type": payload})
    rep.floor(rid, "reads / fills of reference memos in the Ref arm of the converter", n, 4)


# ---------------------------------------------------------------------------------------------------- C05.14
def skipped_negative_rule(F, rep, rid):
    """`pos \\ (n1 | n2 | ..)` is decided one negative at a time: `pos \\ n1` is cut into FRAGMENTS of pos and each
    fragment is checked against the remaining negatives.  Handing the UNCHANGED positive on to the remaining negatives
    means `pos \\ n1 = pos`, i.e. that n1 removes nothing - true only if pos and n1 are disjoint, which for these
    atoms is a statement about EMPTINESS (a missing rest element, an empty value type), never about which keys are
    spelled out (an index signature covers keys that are not declared).  Decided for the recursive procedures of the
    engine that take a list of negatives: every self-call that passes all other arguments unchanged and only moves on
    to the remaining negatives lies under a condition that contains an emptiness test (`is_never`, `is_empty`,
    `is_empty_status`)."""
    rep.rule(rid, "a negative is skipped (the positive handed on unchanged) only under an emptiness test")
    n = 0
    for g, t in sorted(F.hir.items()):
        f = F.fns.get(g)
        if f is None or f.kind == "Closure" or not (f.file or "").startswith("packages/beff-core/src/subtyping"):
            continue
        plids = [p.get("lid") if p["k"] == "P.Binding" else None for p in t["params"]]
        ptys = [p.get("ty") or "" for p in t["params"]]
        negpos = [i for i, ty in enumerate(ptys) if (ty.startswith("&[") and "AtomicType" in ty) or ("Option<std::rc::Rc<subtyping::bdd::Conjunction>>" in ty)]
        if not negpos:
            continue
        lets = {x["pat"].get("lid"): x["init"] for x in walk(t["body"]) if x["k"] == "LetStmt" and x["pat"]["k"] == "P.Binding" and x.get("init") is not None}
        def plain_param(e, i):
            while isinstance(e, dict) and e.get("k") in ("AddrOf", "Deref", "DropTemps"):
                e = e["e"]
            if isinstance(e, dict) and e.get("k") == "MethodCall" and e.get("method") == "clone" and not e.get("args"):
                return plain_param(e["recv"], i)
            return isinstance(e, dict) and e.get("k") == "Path" and e.get("lid") == plids[i]
        def enclosing_conds(node):
            """conditions of the if / match-arm guards on the way from the body to `node`, plus earlier guards that leave"""
            out = []
            def go(n):
                if n is node:
                    return True
                if not isinstance(n, dict):
                    return False
                k = n.get("k")
                if k == "If":
                    for br in ("then", "else"):
                        if isinstance(n.get(br), dict) and go(n[br]):
                            out.append(n["cond"])
                            return True
                    return go(n["cond"])
                if k == "Match":
                    if go(n["scrut"]):
                        return True
                    for a_ in n["arms"]:
                        if go(a_["body"]):
                            if a_.get("guard"):
                                out.append(a_["guard"])
                            out.append(n["scrut"])
                            return True
                    return False
                for v in n.values():
                    if isinstance(v, dict) and go(v):
                        return True
                    if isinstance(v, list):
                        for y in v:
                            if isinstance(y, dict) and go(y):
                                return True
                return False
            go(t["body"])
            return out
        for x in walk(t["body"]):
            if x["k"] not in ("Call", "MethodCall"):
                continue
            cal = x.get("callee") if x["k"] == "Call" else (x.get("resolved") or x.get("callee"))
            if F._callee_gid(f.crate, cal or "") != g:
                continue
            args = ([x["recv"]] if x["k"] == "MethodCall" else []) + list(x["args"])
            if len(args) != len(plids):
                continue
            ni = negpos[0]
            others_plain = all(plain_param(a_, i) for i, a_ in enumerate(args) if i != ni and "SemTypeContext" not in ptys[i])
            moved_on = not plain_param(args[ni], ni)
            if not (others_plain and moved_on):
                continue
            n += 1
            conds = enclosing_conds(x)
            tested = any(y["k"] == "MethodCall" and y.get("method") in ("is_never", "is_empty", "is_empty_status", "is_subtype") for c_ in conds for y in walk(c_))
            rep.ob(rid, "%s/skip" % g.rsplit("::", 1)[-1], tested,
                   "%s hands the unchanged positive on to the remaining negatives (line %s), i.e. it claims that the current negative removes nothing, without an emptiness test in the conditions leading there: whether a negative overlaps the positive is not a matter of which keys are declared (an index signature covers the others), so values the skipped negative would have removed are counted as left over and `S extends A | B` is answered `no` depending on the order of A and B" % (g, x.get("line")),
                   "%s:%s" % (f.file, x.get("line")), sample={"fn": g, "conditions": len(conds)})
    rep.ob(rid, "scan", True, sample={"skip_calls": n})
