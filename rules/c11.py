"""C11 — strict mode rejects exactly the values that carry undeclared keys.

C11.1  the strictness flag is threaded unchanged: children are called with the method's own ctx
C11.2  one reader: only the object class (and the facade that builds contexts) reads disallowExtraProperties,
       in the branch without index signature, comparing the input's keys with the class's own declared keys
C11.4  (shared with C01.7) the printer drops no field of an object shape it rebuilds (index signatures)
C11.3  conjunctive delegation: a class that hands the same input to several children and requires all of them
       must not let each child judge extra keys against its own key set only
"""
import tsast
from tsast import walk, s, unparen, method_call
from rules import ts_common

LEVEL = "other"
METHODS = ("validate", "parseAfterValidation", "reportDecodeError")
FLAG = "disallowExtraProperties"



def ctx_origin(fn, e, depth=0):
    """where a context expression comes from, as (parameter index, field path) of fn - through local consts,
    destructuring (`const { ctx } = job`), member reads (`job.ctx`) and locally built records (`const job = { ctx,
    .. }; .. job.ctx`); None when it is anything else"""
    if depth > 6 or e is None:
        return None
    e = unparen(e)
    ps = ts_common.fn_params(fn)
    t = e.get("type")
    if t == "Identifier":
        nm = e["value"]
        # the innermost declaration wins: a local const / destructuring of that name
        for d in walk(fn.get("body") or {}):
            if d.get("type") != "VariableDeclarator" or d.get("init") is None:
                continue
            pat = d["id"]
            if pat.get("type") == "Identifier" and pat["value"] == nm:
                return ctx_origin(fn, d["init"], depth + 1)
            if pat.get("type") == "ObjectPattern":
                for pp in pat["properties"]:
                    if pp["type"] == "AssignmentPatternProperty" and pp["key"]["value"] == nm and pp.get("value") is None:
                        o = ctx_origin(fn, d["init"], depth + 1)
                        return (o[0], o[1] + "." + nm) if o else None
                    if pp["type"] == "KeyValuePatternProperty" and unparen(pp["value"]).get("type") == "Identifier" and unparen(pp["value"])["value"] == nm:
                        o = ctx_origin(fn, d["init"], depth + 1)
                        return (o[0], o[1] + "." + tsast.prop_key(pp["key"])) if o else None
        if nm in ps:
            return (ps.index(nm), "")
        return None
    if t == "MemberExpression" and e["property"].get("type") == "Identifier":
        fld = e["property"]["value"]
        obj = unparen(e["object"])
        # a record built in this function: read the property of the literal
        lit = obj
        if obj.get("type") == "Identifier":
            for d in walk(fn.get("body") or {}):
                if d.get("type") == "VariableDeclarator" and d["id"].get("type") == "Identifier" and d["id"]["value"] == obj["value"] and d.get("init") is not None:
                    lit = unparen(d["init"])
        if lit.get("type") == "ObjectExpression":
            for pr in lit["properties"]:
                if pr["type"] == "KeyValueProperty" and tsast.prop_key(pr["key"]) == fld:
                    return ctx_origin(fn, pr["value"], depth + 1)
                if pr["type"] == "Identifier" and pr["value"] == fld:
                    return ctx_origin(fn, pr, depth + 1)
            return None
        o = ctx_origin(fn, obj, depth + 1)
        return (o[0], o[1] + "." + fld) if o else None
    return None


def interface_flattening_rule(cx, rep, rid):
    """The runtime applies strict mode to each member of an intersection separately (recorded finding): `A & B` with two
    closed object members rejects every value that has keys of both.  For `interface X extends A, B {..}` the compiler
    avoids that by flattening parents and body into one object; only what cannot be flattened stays an intersection.
    A path of the interface lowering that returns the intersection of the parents WITHOUT offering it to the
    flattening makes the strict-mode validator of that interface reject everything.  Decided in the frontend functions
    that take the interface declaration: every `Runtype::all_of(..)` built there flows (directly or through a `let`)
    into an argument of the flattening function - the frontend function from `&Runtype` to the map of declared
    members."""
    from facts import walk as rwalk
    F = cx.rs
    flat = {g for g, f in F.fns.items() if "/src/frontend" in (f.file or "") and f.kind != "Closure"
            and "Map<std::string::String, ast::runtype::Optionality<ast::runtype::Runtype>>" in (f.output or "")
            and any(t_.strip() == "&ast::runtype::Runtype" for t_ in (f.inputs or []))}
    if not flat:
        rep.anchor_missing(rid, "flattening function (&Runtype -> map of declared members)")
        return
    n = 0
    for g, t in sorted(F.hir.items()):
        f = F.fns.get(g)
        if f is None or "/src/frontend" not in (f.file or "") or not any("TsInterfaceDecl" in (x or "") for x in (f.inputs or [])):
            continue
        body = t["body"]
        flat_args = []
        for c in rwalk(body):
            if c["k"] in ("Call", "MethodCall") and F._callee_gid(f.crate, (c.get("callee") if c["k"] == "Call" else (c.get("resolved") or c.get("callee"))) or "") in flat:
                flat_args += list(c.get("args") or [])
        lets = {}
        for st in rwalk(body):
            if st["k"] == "LetStmt" and st.get("init") is not None and st["pat"].get("k") == "P.Binding":
                lets[st["pat"].get("lid")] = st["init"]
        for a in rwalk(body):
            if not (a["k"] == "Call" and (a.get("callee") or "").endswith("Runtype::all_of")):
                continue
            n += 1
            # the locals initialised with this call
            holders = {lid for lid, init in lets.items() if any(x is a for x in rwalk(init))}
            offered = any(any(x is a for x in rwalk(arg)) or any(x["k"] == "Path" and x.get("lid") in holders for x in rwalk(arg)) for arg in flat_args)
            rep.ob(rid, "%s/all_of" % f.name, offered,
                   "%s builds an intersection (`Runtype::all_of`) for an interface declaration that is never offered to the flattening function (%s): the interface stays `A & B`, whose members are closed objects checked one by one in strict mode - `interface Person extends Named, Aged {}` then rejects {name, age} under disallowExtraProperties while the default mode accepts it" % (
                       g, ", ".join(sorted(x.rsplit("::", 1)[-1] for x in flat))),
                   "%s:%s" % (f.file, a["line"]), sample={"fn": f.name, "offered_to_flattening": offered})
    rep.floor(rid, "intersections built by the interface lowering", n, 1)


def run(cx, rep):
    fam = ts_common.Family(cx)
    mod = fam.mod
    rep.explanation = (
        "Rules over the swc AST of the runtime classes: every call of a child's validate / parseAfterValidation / "
        "reportDecodeError passes the method's own context parameter (an identifier, never a rebuilt object); the "
        "strictness flag is read only by the class that owns a declared-property dictionary, in its no-index-signature "
        "branch, comparing Object.keys(input) with its own keys, and by the facade that builds the contexts; a class that "
        "forwards one input to several children and requires all of them (intersection) is reported when it forwards the "
        "flag unchanged (each member then rejects the other members' keys). Decides how the flag can flow; the "
        "equivalence itself is not decided.")
    rep.trusted = ["swc AST"]
    # ---------------------------------------------------------------- C11.1
    rep.rule("C11.1", "children are validated / parsed / reported with the caller's own ctx")
    n_calls = 0
    # every function of the module that calls a child's validate / parseAfterValidation / reportDecodeError: the
    # interface methods themselves (their ctx is their first parameter) and helpers a refactoring may have put the
    # call into (their ctx is whichever parameter they forward; each of their call sites must in turn pass the
    # caller's own ctx there)
    fam_fns = {id(fn): (cname, mname) for cname, mname, fn in ts_common.family_methods(fam, METHODS)}
    fnlikes = []   # (label, class name or None, function node)
    facade0 = {c.name for c in mod.classes.values() if "BeffParser" in c.implements}
    for cname, c in sorted(mod.classes.items()):
        if cname in facade0:
            continue   # the facade is where contexts are created (checked below: nobody else builds one)
        for mname, m in sorted(c.methods.items()):
            if m["function"].get("body") is not None:
                fnlikes.append(("%s.%s" % (cname, mname), cname, m["function"]))
    for fname, d in sorted(mod.functions.items()):
        if d.get("body") is not None:
            fnlikes.append((fname, None, d))
    forwards = {}   # id(helper fn) -> set of parameter indices that carry the ctx
    for label, cname, fn in fnlikes:
        ps = ts_common.fn_params(fn)
        is_fam = id(fn) in fam_fns
        for n in walk(fn):
            if n["type"] != "CallExpression":
                continue
            mc = method_call(n)
            if not mc or mc[1] not in METHODS or not mc[2]:
                continue
            if s(mc[0]) == "super":
                continue
            if not is_fam and (cname is None or cname not in fam.classes) and s(mc[0]).startswith("this."):
                pass
            n_calls += 1
            a0 = unparen(mc[2][0])
            org = ctx_origin(fn, a0)
            if is_fam:
                ctxname = ps[0] if ps else None
                ok = org == (0, "")
            else:
                ok = org is not None
                if ok:
                    forwards.setdefault(id(fn), set()).add(org)
                ctxname = "one of its parameters"
            rep.ob("C11.1", "%s/%s.%s" % (label, s(mc[0])[:40], mc[1]), ok,
                   "%s calls %s.%s with `%s` instead of its own context `%s`: strict mode would be switched %s below this point" % (
                       label, s(mc[0]), mc[1], s(a0)[:60], ctxname, "off or on"), mod.loc(n))
    # call sites of ctx-forwarding helpers (to a fixpoint: a helper may call a helper)
    changed = True
    checked = set()
    while changed:
        changed = False
        for label, cname, fn in fnlikes:
            ps = ts_common.fn_params(fn)
            is_fam = id(fn) in fam_fns
            for n in walk(fn):
                if n["type"] != "CallExpression":
                    continue
                r = tsast.resolve_local_call(mod, cname, n)
                if r is None or id(r[0]) not in forwards:
                    continue
                args = [a["expression"] for a in n["arguments"]]
                for (i, path) in sorted(forwards[id(r[0])]):
                    if (id(n), i, path) in checked:
                        continue
                    checked.add((id(n), i, path))
                    a = unparen(args[i]) if i < len(args) else {"type": "missing"}
                    # the expression `<argument><path>` read in the caller
                    e_ = a
                    for fld in [x for x in path.split(".") if x]:
                        e_ = {"type": "MemberExpression", "object": e_, "property": {"type": "Identifier", "value": fld}}
                    org = ctx_origin(fn, e_) if a.get("type") != "missing" else None
                    if is_fam:
                        ok = org == (0, "")
                    else:
                        ok = org is not None
                        if ok and org not in forwards.get(id(fn), set()):
                            forwards.setdefault(id(fn), set()).add(org)
                            changed = True
                    rep.ob("C11.1", "%s/helper:%s" % (label, s(n["callee"])[:40]), bool(ok),
                           "%s hands `%s` to %s, which validates children with it, instead of its own context: strict mode would be switched off or on below this point" % (
                               label, s(a)[:60] if a.get("type") != "missing" else "nothing", s(n["callee"])), mod.loc(n))
    rep.floor("C11.1", "child calls checked", n_calls, 30)
    # contexts are only built by the facade (object literals carrying the flag)
    builders = set()
    for cname, c in mod.classes.items():
        for mname, m in c.methods.items():
            if m["function"].get("body") is None:
                continue
            for n in walk(m["function"]):
                if n["type"] == "ObjectExpression":
                    for p in n["properties"]:
                        k = tsast.prop_key(p["key"]) if p["type"] == "KeyValueProperty" else (p.get("value") if p["type"] == "Identifier" else None)
                        if k == FLAG:
                            builders.add(cname)
    facade = {c.name for c in mod.classes.values() if "BeffParser" in c.implements}
    rep.ob("C11.1", "context-builders", builders <= facade, "validation contexts are built outside the parser facade: %s" % sorted(builders - facade), mod.rel,
           sample={"context_builders": sorted(builders)})
    # ---------------------------------------------------------------- C11.2
    rep.rule("C11.2", "only the object class reads the flag, against its own declared keys")
    readers = {}
    for cname, c in mod.classes.items():
        for mname, m in c.methods.items():
            if m["function"].get("body") is None:
                continue
            for n in walk(m["function"]):
                if n["type"] == "MemberExpression" and n["property"].get("value") == FLAG and s(n["object"]) != "options":
                    readers.setdefault((cname, mname), []).append(n)
                if n["type"] == "OptionalChainingExpression" and n["base"].get("property", {}).get("value") == FLAG and s(n["base"]["object"]) != "options":
                    readers.setdefault((cname, mname), []).append(n)
    obj_classes = {cn for cn in fam.classes if any(tsast.type_str(ann).startswith("Record<string,Runtype") for _, (o, ann) in fam.all_fields(cn).items() if ann is not None)
                   and ts_common.index_signature_field(fam, cn) is not None}
    rep.ob("C11.2", "object-class", len(obj_classes) == 1, "expected exactly one class with declared properties + index signatures, found %s" % sorted(obj_classes), mod.rel)
    for (cname, mname), nodes in sorted(readers.items()):
        ok = cname in obj_classes and mname in ("validate", "reportDecodeError")
        rep.ob("C11.2", "reader/%s.%s" % (cname, mname), ok,
               "%s.%s reads ctx.%s: only the object class may decide about extra keys (it alone knows the declared keys)" % (cname, mname, FLAG), mod.loc(nodes[0]))
        if ok:
            fn = fam.classes[cname].methods[mname]["function"]
            for nd in nodes:
                # the read sits in the else-branch of `if (this.indexedPropertiesParser.length > 0)`
                # (however the branch is spelled: else-branch, early return of the index-signature case, `=== 0`)
                in_else = False
                lens = "this.%s.length" % ts_common.index_signature_field(fam, cname)
                for a_, v_ in ts_common.known_atoms(fn, nd).items():
                    a2 = a_.replace("(", "").replace(")", "").replace(" ", "")
                    if lens not in a2:
                        continue
                    if (a2 in (lens + ">0", lens + "!==0", lens + "!=0", lens + ">=1", lens) and v_ is False) or (a2 in (lens + "===0", lens + "==0", lens + "<1") and v_ is True):
                        in_else = True
                rep.ob("C11.2", "%s.%s/no-index-signature-branch" % (cname, mname), in_else,
                       "%s.%s must consult the flag only when no index signature admits further keys" % (cname, mname), mod.loc(nd))
                # the comparison is Object.keys(input) filtered by the class's own keys
                guard = None
                for i in walk(fn):
                    if i["type"] == "IfStatement" and any(x is nd for x in walk(i["test"])):
                        guard = i
                ps = ts_common.fn_params(fn)
                # (seen through private helpers, with their parameters replaced by the arguments of the call)
                gnodes = list(tsast.walk_inl(mod, cname, guard["consequent"])) if guard else []
                # the comparison may be a further conjunct of the guard itself (`if (ctx.flag && undeclaredKeys(input,
                # configKeys).length > 0) return false`, benign b94): the other operands of the `&&` chain the flag read
                # is an operand of belong to the guarded decision as much as the statements of the consequent do
                def conjuncts(e):
                    e = unparen(e)
                    if e.get("type") == "BinaryExpression" and e.get("operator") == "&&":
                        return conjuncts(e["left"]) + conjuncts(e["right"])
                    return [e]
                if guard:
                    cj = conjuncts(guard["test"])
                    if len(cj) > 1:
                        for e_ in cj:
                            if not any(x is nd for x in walk(e_)):
                                gnodes += list(tsast.walk_inl(mod, cname, e_))
                calls_ = [x for x in gnodes if x["type"] == "CallExpression"]
                keys_of_input = any(s(x["callee"]) == "Object.keys" and x["arguments"] and s(x["arguments"][0]["expression"]) == ps[1] for x in calls_)
                includes_ = [method_call(x) for x in calls_ if method_call(x) and method_call(x)[1] == "includes"]
                al = ts_common.local_aliases(fn)
                def own_keys(e, d=0):
                    e = unparen(e)
                    if e.get("type") == "Identifier" and e["value"] in al and d < 3:
                        return own_keys(al[e["value"]], d + 1)
                    return e.get("type") == "CallExpression" and s(e["callee"]) == "Object.keys" and e["arguments"] and s(e["arguments"][0]["expression"]).startswith("this.")
                ok2 = keys_of_input and any(own_keys(mc_[0]) for mc_ in includes_)
                txt = "; ".join(sorted({s(x)[:60] for x in calls_}))[:200]
                rep.ob("C11.2", "%s.%s/own-keys" % (cname, mname), ok2,
                       "%s.%s must compare Object.keys(input) with the class's own declared keys" % (cname, mname), mod.loc(nd), sample={"guarded_block": txt[:120]})
    rep.floor("C11.2", "flag readers", len(readers), 2)
    # ---------------------------------------------------------------- C11.4
    # (shared with C01.7) an index signature dropped while the printer rebuilds an object validator makes strict mode
    # reject keys the declared type admits
    rep.rule("C11.4", "the printer keeps the index signature of every object shape it rebuilds")
    from rules.c01 import partial_projection_rule
    partial_projection_rule(cx, rep, "C11.4")
    # ---------------------------------------------------------------- C11.3
    # (shared with C01.6 / C08.5) object members of an intersection that the smart constructor does NOT merge stay an
    # AllOf of closed objects, each of which rejects the other's keys in strict mode: what decides between merging and
    # not merging must be the stored property values and nothing else (metadata, spelling)
    rep.rule("C11.7", "literal object members of an intersection are merged whenever their shared properties are equal (= C08.5)")
    from rules.c08 import all_of_merge_rule
    all_of_merge_rule(cx, rep, "C11.7")
    # (shared with C07.13) an index signature that the materialiser leaves out closes the object
    from rules.c07 import optional_part_rule
    optional_part_rule(cx, rep, "C11.8")
    rep.rule("C11.5", "open-object inclusion never decides which members of a printed union are kept")
    open_inclusion_callers_rule(cx, rep, "C11.5")
    rep.rule("C11.9", "an interface with an `extends` clause is offered to the flattening into ONE closed object before it is left as an intersection")
    interface_flattening_rule(cx, rep, "C11.9")
    rep.rule("C11.6", "strict mode finds undeclared keys by name, never by counting (= C03.13)")
    ts_common.key_count_rule(cx, rep, "C11.6", methods=("validate", "reportDecodeError"))
    rep.rule("C11.3", "conjunctive delegation counts the keys of all members")
    for cname, mname, fn in ts_common.family_methods(fam, ("validate",)):
        ps = ts_common.fn_params(fn)
        for loop in walk(fn):
            if loop["type"] != "ForOfStatement":
                continue
            coll = s(loop["right"])
            if not coll.startswith("this."):
                continue
            fld = coll[5:]
            ann = fam.all_fields(cname).get(fld, (None, None))[1]
            if ann is None or tsast.type_str(ann) not in ("Runtype[]", "Array<Runtype>"):
                continue
            var = loop["left"]["declarations"][0]["id"]["value"] if loop["left"]["type"] == "VariableDeclaration" else None
            calls = [n for n in walk(loop["body"]) if n["type"] == "CallExpression" and method_call(n) and method_call(n)[1] == "validate" and s(method_call(n)[0]) == var]
            same_input = [c for c in calls if len(method_call(c)[2]) == 2 and s(method_call(c)[2][1]) == ps[1]]
            if not same_input:
                continue
            # conjunctive: a failed member returns false from the loop
            conj = False
            for i in walk(loop["body"]):
                if i["type"] == "IfStatement":
                    t = unparen(i["test"])
                    if t["type"] == "UnaryExpression" and t["operator"] == "!" and any(x is same_input[0] for x in walk(t)):
                        if any(r["type"] == "ReturnStatement" and s(r.get("argument")) == "false" for r in walk(i["consequent"])):
                            conj = True
            if not conj:
                continue
            forwards_flag = s(method_call(same_input[0])[2][0]) == ps[0]
            rep.ob("C11.3", "%s.%s" % (cname, mname), not forwards_flag,
                   "%s.validate requires every member of `%s` to accept the same input and forwards the strictness flag unchanged: each object member then rejects the keys declared by the other members, so an intersection of named object types rejects every value in strict mode" % (cname, coll),
                   mod.loc(loop), sample={"class": cname, "members": coll})



def open_inclusion_callers_rule(cx, rep, rid):
    """The semantic subtype test treats object types as OPEN ({id, meta} <= {id}): that is the right reading for
    TypeScript's `extends`, and in default mode the runtime agrees (surplus keys are ignored).  In strict mode an object
    validator accepts its declared keys only, so a union member that is semantically covered by another one still
    accepts values the covering member rejects.  Using the inclusion test to simplify a Runtype (drop covered union
    members, merge `same` members) therefore changes which values strict mode accepts.  Decided (who-may-call): the
    inclusion / equality tests of the engine (`is_subtype`, `is_same_type` on semantic types) are called only from the
    engine itself and from the frontend's conditional-type evaluation - not from the Runtype simplifiers
    (ast/), the materialiser (subtyping/to_schema.rs) or the printer (print/)."""
    import re as _re
    F = cx.rs
    TEST = _re.compile(r"SemTypeOps::(is_subtype|is_same_type)$")
    ok_sites, n = 0, 0
    for g in sorted(F.fns):
        f = F.fns[g]
        if not f.mir or f.crate != "beff_core":
            continue
        for c in f.calls:
            if not TEST.search((c.path or "").split("<")[0] if False else (c.path or "")):
                continue
            n += 1
            file = f.file or ""
            allowed = ("/src/frontend/" in file) or ("/src/subtyping/" in file and not file.endswith("to_schema.rs")) or file.endswith("test_tools.rs") or "/tests/" in file
            ok_sites += 1 if allowed else 0
            rep.ob(rid, "%s->%s" % (_re.sub(r"(::\{closure#\d+\})+$", "", g), c.path.rsplit("::", 1)[-1]), allowed,
                   "%s calls %s: the engine's inclusion test reads object types as open, so simplifying a printed type with it (dropping a union member that another member covers, merging members it calls equal) removes the only member that accepts certain keys - in strict mode values whose every key is declared by some union member are then rejected" % (g, c.path),
                   "%s:%s" % (c.file, c.line), sample={"caller": g, "callee": c.path})
    rep.floor(rid, "call sites of the inclusion tests", n, 1)
