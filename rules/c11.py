"""C11 — strict mode rejects exactly the values that carry undeclared keys.

C11.1  the strictness flag is threaded unchanged: children are called with the method's own ctx
C11.2  one reader: only the object class (and the facade that builds contexts) reads disallowExtraProperties,
       in the branch without index signature, comparing the input's keys with the class's own declared keys
C11.3  conjunctive delegation: a class that hands the same input to several children and requires all of them
       must not let each child judge extra keys against its own key set only
"""
import tsast
from tsast import walk, s, unparen, method_call
from rules import ts_common

LEVEL = "other"
METHODS = ("validate", "parseAfterValidation", "reportDecodeError")
FLAG = "disallowExtraProperties"


def run(cx, rep):
    fam = ts_common.Family(cx)
    mod = fam.mod
    rep.explanation = (
        "Rules over the swc AST of the runtime classes: every call of a child's validate / parseAfterValidation / "
        "reportDecodeError passes the method's own context parameter (an identifier, never a rebuilt object); the "
        "strictness flag is read only by the class that owns a declared-property dictionary, in its no-index-signature "
        "branch, comparing Object.keys(input) with its own keys, and by the facade that builds the contexts; a class that "
        "forwards one input to several children and requires all of them (intersection) is reported when it forwards the "
        "flag unchanged (each member then rejects the other members' keys). Decides how the flag can flow; the "
        "equivalence itself is not decided.")
    rep.trusted = ["swc AST"]
    # ---------------------------------------------------------------- C11.1
    rep.rule("C11.1", "children are validated / parsed / reported with the caller's own ctx")
    n_calls = 0
    for cname, mname, fn in ts_common.family_methods(fam, METHODS):
        ps = ts_common.fn_params(fn)
        if not ps or ps[0] is None:
            continue
        ctxname = ps[0]
        for n in walk(fn):
            if n["type"] != "CallExpression":
                continue
            mc = method_call(n)
            if not mc or mc[1] not in METHODS or not mc[2]:
                continue
            if s(mc[0]) == "super":
                continue
            n_calls += 1
            a0 = unparen(mc[2][0])
            ok = a0["type"] == "Identifier" and a0["value"] == ctxname
            rep.ob("C11.1", "%s.%s/%s.%s" % (cname, mname, s(mc[0])[:40], mc[1]), ok,
                   "%s.%s calls %s.%s with `%s` instead of its own context `%s`: strict mode would be switched %s below this point" % (
                       cname, mname, s(mc[0]), mc[1], s(a0)[:60], ctxname, "off or on"), mod.loc(n))
    rep.floor("C11.1", "child calls checked", n_calls, 50)
    # contexts are only built by the facade (object literals carrying the flag)
    builders = set()
    for cname, c in mod.classes.items():
        for mname, m in c.methods.items():
            if m["function"].get("body") is None:
                continue
            for n in walk(m["function"]):
                if n["type"] == "ObjectExpression":
                    for p in n["properties"]:
                        k = tsast.prop_key(p["key"]) if p["type"] == "KeyValueProperty" else (p.get("value") if p["type"] == "Identifier" else None)
                        if k == FLAG:
                            builders.add(cname)
    facade = {c.name for c in mod.classes.values() if "BeffParser" in c.implements}
    rep.ob("C11.1", "context-builders", builders <= facade, "validation contexts are built outside the parser facade: %s" % sorted(builders - facade), mod.rel,
           sample={"context_builders": sorted(builders)})
    # ---------------------------------------------------------------- C11.2
    rep.rule("C11.2", "only the object class reads the flag, against its own declared keys")
    readers = {}
    for cname, c in mod.classes.items():
        for mname, m in c.methods.items():
            if m["function"].get("body") is None:
                continue
            for n in walk(m["function"]):
                if n["type"] == "MemberExpression" and n["property"].get("value") == FLAG and s(n["object"]) != "options":
                    readers.setdefault((cname, mname), []).append(n)
                if n["type"] == "OptionalChainingExpression" and n["base"].get("property", {}).get("value") == FLAG and s(n["base"]["object"]) != "options":
                    readers.setdefault((cname, mname), []).append(n)
    obj_classes = {cn for cn in fam.classes if any(tsast.type_str(ann).startswith("Record<string,Runtype") for _, (o, ann) in fam.all_fields(cn).items() if ann is not None)
                   and "indexedPropertiesParser" in fam.all_fields(cn)}
    rep.ob("C11.2", "object-class", len(obj_classes) == 1, "expected exactly one class with declared properties + index signatures, found %s" % sorted(obj_classes), mod.rel)
    for (cname, mname), nodes in sorted(readers.items()):
        ok = cname in obj_classes and mname in ("validate", "reportDecodeError")
        rep.ob("C11.2", "reader/%s.%s" % (cname, mname), ok,
               "%s.%s reads ctx.%s: only the object class may decide about extra keys (it alone knows the declared keys)" % (cname, mname, FLAG), mod.loc(nodes[0]))
        if ok:
            fn = fam.classes[cname].methods[mname]["function"]
            for nd in nodes:
                # the read sits in the else-branch of `if (this.indexedPropertiesParser.length > 0)`
                in_else = False
                for i in walk(fn):
                    if i["type"] == "IfStatement" and "indexedPropertiesParser.length" in s(i["test"]) and i.get("alternate") is not None:
                        if any(x is nd for x in walk(i["alternate"])):
                            in_else = True
                rep.ob("C11.2", "%s.%s/no-index-signature-branch" % (cname, mname), in_else,
                       "%s.%s must consult the flag only when no index signature admits further keys" % (cname, mname), mod.loc(nd))
                # the comparison is Object.keys(input) filtered by the class's own keys
                guard = None
                for i in walk(fn):
                    if i["type"] == "IfStatement" and any(x is nd for x in walk(i["test"])):
                        guard = i
                txt = "".join(mod.text(guard["consequent"]).split()) if guard else ""
                ps = ts_common.fn_params(fn)
                ok2 = ("Object.keys(%s)" % ps[1]) in txt and ".includes(" in txt and ("configKeys" in txt or "Object.keys(this." in txt)
                rep.ob("C11.2", "%s.%s/own-keys" % (cname, mname), ok2,
                       "%s.%s must compare Object.keys(input) with the class's own declared keys" % (cname, mname), mod.loc(nd), sample={"guarded_block": txt[:120]})
    rep.floor("C11.2", "flag readers", len(readers), 2)
    # ---------------------------------------------------------------- C11.3
    rep.rule("C11.3", "conjunctive delegation counts the keys of all members")
    for cname, mname, fn in ts_common.family_methods(fam, ("validate",)):
        ps = ts_common.fn_params(fn)
        for loop in walk(fn):
            if loop["type"] != "ForOfStatement":
                continue
            coll = s(loop["right"])
            if not coll.startswith("this."):
                continue
            fld = coll[5:]
            ann = fam.all_fields(cname).get(fld, (None, None))[1]
            if ann is None or tsast.type_str(ann) not in ("Runtype[]", "Array<Runtype>"):
                continue
            var = loop["left"]["declarations"][0]["id"]["value"] if loop["left"]["type"] == "VariableDeclaration" else None
            calls = [n for n in walk(loop["body"]) if n["type"] == "CallExpression" and method_call(n) and method_call(n)[1] == "validate" and s(method_call(n)[0]) == var]
            same_input = [c for c in calls if len(method_call(c)[2]) == 2 and s(method_call(c)[2][1]) == ps[1]]
            if not same_input:
                continue
            # conjunctive: a failed member returns false from the loop
            conj = False
            for i in walk(loop["body"]):
                if i["type"] == "IfStatement":
                    t = unparen(i["test"])
                    if t["type"] == "UnaryExpression" and t["operator"] == "!" and any(x is same_input[0] for x in walk(t)):
                        if any(r["type"] == "ReturnStatement" and s(r.get("argument")) == "false" for r in walk(i["consequent"])):
                            conj = True
            if not conj:
                continue
            forwards_flag = s(method_call(same_input[0])[2][0]) == ps[0]
            rep.ob("C11.3", "%s.%s" % (cname, mname), not forwards_flag,
                   "%s.validate requires every member of `%s` to accept the same input and forwards the strictness flag unchanged: each object member then rejects the keys declared by the other members, so an intersection of named object types rejects every value in strict mode" % (cname, coll),
                   mod.loc(loop), sample={"class": cname, "members": coll})
