"""C14 — watch-mode rebuilds depend on current file contents only.

C14.1  every normal path of the update export replaces or evicts the cache entry of the updated file
C14.2  the module cache is written only by the update path and by FileManager::get_or_fetch_file,
       where the cached value is parse_and_bind(read_file_content(name)) for the same name
C14.3  inventory of process-lifetime state (Rust statics / cache ADT fields / JS module-level bindings)
C14.4  the cached value depends on (name, content) only: no host query is reachable from parse_and_bind
C14.5  JS-side caches keyed by file are invalidated by updateFileContent
"""
import re
import collections
from entry import reachable, wasm_exports
from facts import WASM
from mirflow import FnFlow, Origins, must_pass, offending_return_path, op_local, op_place
import tsast

LEVEL = "other"

HO_WRAPPERS = re.compile(
    r"^(std::thread::LocalKey::<T>::(with|with_borrow|with_borrow_mut)|scoped_tls::ScopedKey::<T>::set|"
    r"std::option::Option::<T>::(map|and_then|map_or|map_or_else|unwrap_or_else|or_else|ok_or_else)|"
    r"std::result::Result::<T, E>::(map|map_err|and_then|unwrap_or_else|or_else|map_or|map_or_else))$")
CACHE_WRITERS = {"insert", "remove", "clear", "entry", "get_mut", "retain", "extend", "drain", "remove_entry", "try_insert",
                 "iter_mut", "values_mut"}
# the wrappers that run their closure argument on EVERY normal path (not Option::map & co.): used for the summaries of
# local higher-order helpers (`fn with_bundler(action) { BUNDLER.with(|cell| action(..)) }`, benign b96)
MUST_CALL_WRAPPERS = re.compile(
    r"^(std::thread::LocalKey::<T>::(with|with_borrow|with_borrow_mut)|(better_)?scoped_tls::ScopedKey::<T>::set)$")
FN_CALL = re.compile(r"^std::ops::(FnOnce::call_once|FnMut::call_mut|Fn::call)$")


def is_cache_call(call):
    p = call.path or ""
    if not p.startswith("std::collections::HashMap::<K, V"):
        return None
    ta = call.targs
    if len(ta) >= 2 and "BffFileName" in ta[0] and "ParsedModule" in ta[1]:
        return p.rsplit("::", 1)[-1]
    return None


class Must:
    def __init__(self, F):
        self.F = F
        self.memo = {}
        self.imemo = {}

    def closure_of_operand(self, flow, op):
        l = op_local(op)
        if l is None:
            return None
        for _, d in flow.defs_of(l):
            rv = d.get("rv")
            if rv and rv["k"] == "Aggregate" and rv.get("agg") == "Closure":
                return self.F._callee_gid(flow.fn.crate, rv["closure"])
            if rv and rv["k"] == "Use":
                r = self.closure_of_operand(flow, rv["op"])
                if r:
                    return r
        return None

    def pblocks(self, f):
        flow = FnFlow(f)
        out = {}
        for c in f.calls:
            m = is_cache_call(c)
            if m in ("insert", "remove"):
                out[c.bb] = "cache.%s" % m
                continue
            if c.local_target:
                if all(self.must(g) for g in c.local_target):
                    out[c.bb] = "call %s" % c.best
                    continue
                # a local higher-order helper (benign b96: `with_bundler(|bundler| bundler.store_or_evict(..))`): the call
                # is a P event when the closure handed over is one and the helper invokes that parameter on every normal path
                for j, a in enumerate(c.term["args"]):
                    g = self.closure_of_operand(flow, a)
                    if g and self.must(g) and all(self.invokes(t, ("param", j + 1)) for t in c.local_target):
                        out[c.bb] = "%s(closure %s), which calls its argument on every normal path" % (c.best, g)
            if HO_WRAPPERS.match(c.path or ""):
                for a in c.term["args"]:
                    g = self.closure_of_operand(flow, a)
                    if g and self.must(g):
                        out[c.bb] = "%s(closure %s)" % (c.path, g)
        return flow, out

    def callable_token(self, flow, op):
        """the callable an operand stands for, when it is exactly (a move / copy / reborrow of) a parameter of the
        function -> ("param", local) or a capture of the closure -> ("upvar", index); None for anything else (a value
        chosen between two callables, a field of something, a call result)"""
        pl = op_place(op)
        if pl is None:
            return None
        projs = [p for p in pl["p"] if p != "*"]
        if flow.fn.kind == "Closure" and pl["l"] == 1 and len(projs) == 1 and projs[0].startswith("f:#"):
            return ("upvar", int(projs[0][3:]))
        if projs:
            return None
        l = pl["l"]
        defs = flow.defs_of(l)
        if not defs:
            return ("param", l) if 1 <= l <= flow.mir["arg_count"] else None
        if len(defs) != 1:
            return None
        rv = defs[0][1].get("rv")
        if rv and rv["k"] in ("Use", "Cast"):
            return self.callable_token(flow, rv["op"])
        if rv and rv["k"] in ("Ref", "CopyForDeref"):
            return self.callable_token(flow, {"k": "copy", "place": rv["place"]})
        return None

    def invokes(self, g, tok):
        """must-call summary of a local function / closure: on every normal path it calls the callable `tok` (one of its
        parameters / captures) - directly (FnOnce::call_once ..), inside a closure it hands to a wrapper that certainly
        runs it (LocalKey::with, ScopedKey::set), or by passing it on to a local function with such a summary"""
        key = (g, tok)
        if key in self.imemo:
            return self.imemo[key]
        self.imemo[key] = False  # cycles: assume no
        f = self.F.fns.get(g)
        if f is None or not f.mir:
            return False
        flow = FnFlow(f)
        pb = set()
        for c in f.calls:
            args = c.term["args"]
            if FN_CALL.match(c.path or "") and args and self.callable_token(flow, args[0]) == tok:
                pb.add(c.bb)
            elif MUST_CALL_WRAPPERS.match(c.path or ""):
                for a in args:
                    l = op_local(a)
                    for _, d in (flow.defs_of(l) if l is not None else ()):
                        rv = d.get("rv")
                        if rv and rv["k"] == "Aggregate" and rv.get("agg") == "Closure" and len(flow.defs_of(l)) == 1:
                            cg = self.F._callee_gid(f.crate, rv["closure"])
                            if any(self.callable_token(flow, o) == tok and self.invokes(cg, ("upvar", i)) for i, o in enumerate(rv["ops"])):
                                pb.add(c.bb)
            elif c.local_target:
                for j, a in enumerate(args):
                    if self.callable_token(flow, a) == tok and all(self.invokes(t, ("param", j + 1)) for t in c.local_target):
                        pb.add(c.bb)
        r = must_pass(flow, pb)
        self.imemo[key] = r
        return r

    def must(self, g):
        if g in self.memo:
            return self.memo[g]
        self.memo[g] = False  # cycles: assume no
        f = self.F.fns.get(g)
        if f is None or not f.mir:
            return False
        flow, pb = self.pblocks(f)
        r = must_pass(flow, set(pb))
        self.memo[g] = r
        return r


def run(cx, rep):
    F = cx.rs
    reach, parent, roots, exports = reachable(F)
    rep.explanation = (
        "Must/may analyses on the MIR of beff_wasm (which type-checks on the host although it cannot run natively): "
        "(1) must-pass-through: on every normal path of the exported update function a call that inserts into or "
        "removes from the module cache is passed (interprocedural through local helper functions / methods, closures "
        "handed to LocalKey::with / ScopedKey::set, and closures handed to a local higher-order helper that calls its "
        "argument on every normal path), with the key mapped back through helper parameters and closure captures to "
        "the export's file-name parameter; (2) who-may-write + provenance of the cached value by backward data-dependence; "
        "(3) closed inventory of process-lifetime state on both sides of the wasm boundary; (4) may-reach of host "
        "queries from the function whose result is cached. Decides these structural necessary conditions for "
        "history-independence; histories themselves are not executed.")
    rep.trusted = ["rustc MIR (normal edges; unwind edges = panics are out of scope)", "swc AST of ts-node/*.ts"]
    rep.assumptions = ["JS host functions read_file_content/resolve_import are the only inputs",
                       "the JS caches are judged from bundler.ts/commandeer.ts source shape only"]
    rep.analysed = {"wasm_functions": len([f for f in F.fns.values() if f.crate == WASM]), "exports": sorted(exports.values())}

    bundler_ts = cx.ts("packages/beff-wasm/ts-node/bundler.ts")
    # -- anchor: which wasm export does Bundler.updateFileContent call?
    upd_export = None
    bc = bundler_ts.classes.get("Bundler")
    if bc and bc.method_fn("updateFileContent"):
        for n in tsast.walk(bc.method_fn("updateFileContent")):
            if n["type"] == "CallExpression":
                mc = tsast.method_call(n)
                if mc and tsast.s(mc[0]) == "wasm":
                    upd_export = mc[1]
    rep.rule("C14.1", "the update export replaces or evicts the cache entry on every normal path")
    if upd_export is None or upd_export not in exports.values():
        rep.anchor_missing("C14.1", "wasm export called by Bundler.updateFileContent", str(upd_export))
        return
    shim = [g for g, n in exports.items() if n == upd_export][0]
    M = Must(F)
    ok = M.must(shim)
    # witness path for the report
    detail = ""
    loc = None
    if not ok:
        g = shim
        chain = [g]
        # descend to the deepest function that fails
        while True:
            f = F.fns[g]
            flow, pb = M.pblocks(f)
            nxt = None
            for c in f.calls:
                for t in (c.local_target or []):
                    if t in F.fns and not M.must(t) and any(is_cache_call(cc) for gg in F.reachable([t]) for cc in F.fns[gg].calls):
                        nxt = t
                if nxt:
                    break
            if not nxt:
                break
            g = nxt
            chain.append(g)
        f = F.fns[g]
        flow, pb = M.pblocks(f)
        wp = offending_return_path(flow, set(pb)) or []
        lines = []
        for b in wp:
            t = flow.blocks[b]["term"]
            if t.get("line"):
                lines.append(t["line"])
        detail = "path through %s reaching a normal return without cache insert/remove (source lines %s); cache writes found at blocks %s" % (
            g, sorted(set(lines)), pb)
        loc = f.loc()
    rep.ob("C14.1", "%s/must-replace-or-evict" % upd_export, ok,
           "export `%s`: %s — after an update that does not parse, the previous module stays cached and a rebuild returns output for contents that no longer exist" % (upd_export, detail),
           loc, sample={"export": upd_export, "shim": shim, "must_summaries": {k: v for k, v in M.memo.items() if v}})
    # key provenance: the key of each cache write on the update path derives from the export's file-name parameter
    upd_reach = F.reachable([shim], foreign_callbacks=False)
    other_reach = set()
    for g, n in exports.items():
        if n != upd_export:
            other_reach |= F.reachable([g], foreign_callbacks=False)
    # the user-written export the macro-generated shim wraps: its first parameter is the updated file's name.  A write
    # that sits in a helper below it (benign b96: the method `Bundler::store_or_evict(&mut self, file_name, parsed)`,
    # called from a closure) is judged by mapping the helper's key parameter back to its callers' arguments
    entry = {t for c in F.fns[shim].calls for t in (c.local_target or []) if F.fns[t].crate == WASM and F.fns[t].name == upd_export}
    if len(entry) != 1:
        rep.anchor_missing("C14.1", "user function wrapped by the export shim %s" % shim, str(sorted(entry)))
        return
    nkeys = 0
    for g in sorted(upd_reach - other_reach):
        f = F.fns[g]
        for c in f.calls:
            m = is_cache_call(c)
            if m in ("insert", "remove"):
                nkeys += 1
                flow = FnFlow(f)
                org = Origins(flow).of_operand(c.term["args"][1])
                okk = key_from_param(F, f, org, 1, entry=entry, scope=upd_reach)
                rep.ob("C14.1", "%s/key-is-updated-file" % upd_export, okk,
                       "cache %s in %s uses a key that does not derive from the updated file's name parameter" % (m, g),
                       "%s:%s" % (c.file, c.line), sample={"site": "%s:%s" % (c.file, c.line), "key_origins": sorted(map(str, org))[:8]})
    rep.floor("C14.1", "cache writes on the update path", nkeys, 1)

    # ---------------------------------------------------------------- C14.2
    rep.rule("C14.2", "only the update path and FileManager::get_or_fetch_file write the module cache; the fetched value is parse_and_bind(read_file_content(name), name)")
    writers = 0
    fetch_impls = [f for f in F.fns.values() if f.crate == WASM and f.impl_trait and f.impl_trait.endswith("FileManager") and f.name == "get_or_fetch_file"]
    if len(fetch_impls) != 1:
        rep.anchor_missing("C14.2", "wasm impl of FileManager::get_or_fetch_file", str(len(fetch_impls)))
    for f in F.fns.values():
        if f.crate != WASM:
            continue
        for c in f.calls:
            m = is_cache_call(c)
            if m is None or m not in CACHE_WRITERS:
                continue
            writers += 1
            allowed = (f.id in (upd_reach - other_reach)) or f in fetch_impls
            rep.ob("C14.2", "writer/%s/%s" % (f.id, m), allowed,
                   "module cache mutated (%s) in %s, which is neither on the update path nor FileManager::get_or_fetch_file" % (m, f.id),
                   "%s:%s" % (c.file, c.line))
    rep.floor("C14.2", "cache writer call sites", writers, 2)
    for f in fetch_impls:
        flow = FnFlow(f)
        O = Origins(flow)
        ins = [c for c in f.calls if is_cache_call(c) == "insert"]
        rep.floor("C14.2", "insert in get_or_fetch_file", len(ins), 1)
        gets = [c for c in f.calls if is_cache_call(c) == "get"]
        # the parse / read steps may sit in f itself or in a private helper it calls (one level): collect them
        # together with a mapping of the helper's parameters back to f's argument operands
        def sites(suffix):
            out = []
            for c in f.calls:
                if (c.path or "").endswith(suffix):
                    out.append((f, O, c, None))
                for g in (c.local_target or []):
                    h = F.fns.get(g)
                    if h is None or not h.mir or h.impl_trait or h.kind == "Closure":
                        continue
                    OH = Origins(FnFlow(h))
                    for c2 in h.calls:
                        if (c2.path or "").endswith(suffix):
                            out.append((h, OH, c2, c))
            return out

        def origin_names(fn, OX, operand, via):
            """origins of an operand, with a helper's parameters mapped back to the caller's arguments"""
            res = set()
            for o in OX.of_operand(operand):
                if o[0] == "param" and via is not None:
                    idx = o[1] - 1
                    if idx < len(via.term["args"]):
                        res |= O.of_operand(via.term["args"][idx])
                else:
                    res.add(o)
            return res

        def derives_from_call(orgs, suffix, depth=0):
            for o in orgs:
                if o[0] != "call":
                    continue
                if o[1].endswith(suffix):
                    return True
                g = F._callee_gid(f.crate, o[1])
                h = F.fns.get(g)
                if h is not None and h.mir and depth < 2 and not h.impl_trait:
                    if derives_from_call(Origins(FnFlow(h)).of_local(0), suffix, depth + 1):
                        return True
            return False

        pab = sites("parse_and_bind")
        rfc = sites("read_file_content")
        for c in ins:
            ko = O.of_operand(c.term["args"][1])
            vo = O.of_operand(c.term["args"][2])
            rep.ob("C14.2", "fetch/key-is-requested-name", ("param", 2) in ko, "inserted key does not derive from the requested file name", "%s:%s" % (c.file, c.line))
            rep.ob("C14.2", "fetch/value-is-parse-result", derives_from_call(vo, "parse_and_bind"),
                   "inserted value does not derive from parse_and_bind", "%s:%s" % (c.file, c.line))
            rep.ob("C14.2", "fetch/value-not-from-cache", not any(o[0] == "call" and "HashMap" in o[1] and o[1].endswith("::get") for o in vo),
                   "inserted value derives from a cache lookup", "%s:%s" % (c.file, c.line))
        rep.ob("C14.2", "fetch/one-parse", len(pab) == 1 and len(rfc) == 1,
               "expected exactly one parse_and_bind and one read_file_content on the fetch path, found %d/%d" % (len(pab), len(rfc)), f.loc())
        for (h, OH, c, via) in pab:
            name_o = origin_names(h, OH, c.term["args"][1], via)
            cont_o = origin_names(h, OH, c.term["args"][2], via)
            rep.ob("C14.2", "fetch/parse-name-is-requested-name", ("param", 2) in name_o, "parse_and_bind is given another file name", "%s:%s" % (c.file, c.line))
            rep.ob("C14.2", "fetch/parse-content-is-read-content", derives_from_call(cont_o, "read_file_content"),
                   "parse_and_bind content does not come from read_file_content", "%s:%s" % (c.file, c.line))
            rep.ob("C14.2", "fetch/content-not-from-cache", not any(o[0] == "call" and "HashMap" in o[1] for o in cont_o),
                   "parsed content depends on the cache", "%s:%s" % (c.file, c.line))
        for (h, OH, c, via) in rfc:
            o = origin_names(h, OH, c.term["args"][0], via)
            rep.ob("C14.2", "fetch/read-name-is-requested-name", ("param", 2) in o, "read_file_content is asked for another file", "%s:%s" % (c.file, c.line))
        for c in gets:
            o = O.of_operand(c.term["args"][1])
            rep.ob("C14.2", "fetch/lookup-key-is-requested-name", ("param", 2) in o, "cache lookup uses another key", "%s:%s" % (c.file, c.line))

    # ---------------------------------------------------------------- C14.3
    rep.rule("C14.3", "process-lifetime state is exactly the reviewed inventory")
    tab = cx.table("c14_state_inventory.json")
    # process-lifetime roots: user-written statics, lazy_static!s and thread_local!s, identified by the SHAPE of what
    # they hold (the declared type with local structs expanded to their field types), not by their names
    roots = {}   # (crate, base name) -> type
    for s_ in F.statics:
        sid = s_["id"]
        macs = s_.get("macros") or []
        if "thread_local" in macs:
            continue          # std-internal storage of a thread_local!: the LocalKey const below stands for it
        m = re.match(r"^(?:<)?(\w+(?:::\w+)*?)(?:::\{constant#\d+\}.*|::__.*| as .*)?$", sid)
        base = (m.group(1) if m else sid).split("::{")[0].split("::__")[0]
        ty = s_["ty"]
        if "lazy_static" in macs and not ty.startswith("lazy_static::"):
            continue          # the unit struct that derefs to the LAZY static listed separately
        roots[(s_["crate"], base)] = ty
    for cr, d in F.crates.items():
        for raw in d["fns"]:
            if raw["kind"].startswith("Const") and "thread_local" in raw.get("macros", []) and raw.get("ty"):
                roots[(cr, raw["id"].split("::{")[0])] = raw["ty"]

    state_adts = {}

    def shape(cr, ty):
        out = ty
        for gid, a in F.adts.items():
            if a["crate"] != cr:
                continue
            local = a["id"]
            if re.search(r"(?<![\w:])%s(?![\w:])" % re.escape(local), out):
                state_adts[gid] = a
                fields = sorted(fl["ty"] for v in a["variants"] for fl in v["fields"])
                out = re.sub(r"(?<![\w:])%s(?![\w:])" % re.escape(local), "{" + "; ".join(fields) + "}", out)
        return out
    got = collections.Counter((cr, shape(cr, ty)) for (cr, _), ty in roots.items())
    expected = collections.Counter((e["crate"], e["shape"]) for e in tab["rust_state"])
    for (cr, sh), n in sorted(got.items()):
        names = sorted(nm for (c2, nm), ty in roots.items() if c2 == cr and shape(cr, ty) == sh)
        rep.ob("C14.3", "static/%s/%s" % (cr, sh), n <= expected.get((cr, sh), 0),
               "process-lifetime state %s in %s (holding %s) is not in the reviewed inventory (tables/c14_state_inventory.json): state that survives a rebuild must be shown to depend on current file contents only; a new field of the cache struct is new cross-rebuild state as well" % (
                   names, cr, sh), sample={"crate": cr, "held_shape": sh, "items": names})
    for (cr, sh) in sorted(set(expected) - set(got)):
        rep.notes.append("inventory entry %s / %s no longer exists" % (cr, sh))
    rep.floor("C14.3", "process-lifetime roots in beff_wasm", sum(n for (cr, _), n in got.items() if cr == WASM), 2)
    # resolvers are per call: no type implementing the host resolver trait may be held in that state
    resolver_types = {i["self"].split("<")[0] for i in F.impls if (i.get("trait") or "").endswith("FsModuleResolver")}
    rep.floor("C14.3", "host resolver implementations", len(resolver_types), 1)
    for gid, a in sorted(state_adts.items()):
        for v in a["variants"]:
            for fl in v["fields"]:
                bad = [t for t in resolver_types if re.search(r"(?<![\w])%s(?![\w])" % re.escape(t.rsplit("::", 1)[-1]), fl["ty"])]
                rep.ob("C14.3", "percall/%s.%s" % (gid, fl["ty"]), not bad,
                       "%s (an implementation of the host resolver, with its answers cached inside) is stored in process-lifetime state %s: resolutions would survive rebuilds" % (bad, gid),
                       "%s:%s" % (a["file"], a["line"]))
    rep.ob("C14.3", "rust-inventory", True, sample={"rust_state": sorted("%s::%s : %s" % (k[0], k[1], v) for k, v in roots.items())})
    # JS side
    for rel in tab["js_files"]:
        mod = cx.ts(rel)
        bindings = js_module_state(mod)
        # identified by shape (how it is declared, what it is initialised with, whether it is filled from the host),
        # not by name
        fk = js_file_keyed_caches(mod)
        got_js = collections.Counter()
        names_of = collections.defaultdict(list)
        for name, why in sorted(bindings.items()):
            init = mod.vars[name][1]
            sig = "%s | init %s | %s" % (why, tsast.s(init) if init is not None else "-", "filled from fs / module resolution" if name in fk else "not host-derived")
            got_js[sig] += 1
            names_of[sig].append(name)
        exp = collections.Counter(tab["js_state"].get(rel, []))
        for sig, k in sorted(got_js.items()):
            rep.ob("C14.3", "js/%s/%s" % (rel.rsplit("/", 1)[-1], sig), k <= exp.get(sig, 0),
                   "module-level mutable binding(s) %s (%s) in %s: %d such binding(s), the reviewed inventory has %d" % (names_of[sig], sig, rel, k, exp.get(sig, 0)), rel,
                   sample={"file": rel, "bindings": names_of[sig], "shape": sig})
    # ---------------------------------------------------------------- C14.4
    rep.rule("C14.4", "no host query is reachable from the function whose result is cached by (name, content)")
    pab = [f for f in F.fns.values() if f.name == "parse_and_bind" and f.crate != WASM]
    if len(pab) != 1:
        rep.anchor_missing("C14.4", "parse_and_bind")
    else:
        pr = F.reachable([pab[0].id])
        hits = []
        for g in sorted(pr):
            for c in F.fns[g].calls:
                if (c.trait or "").endswith("FsModuleResolver") or (c.path or "").endswith("FsModuleResolver::resolve_import"):
                    hits.append(c)
        for c in hits:
            rep.ob("C14.4", "host-query/%s" % c.fn.id.split("::<")[0], False,
                   "%s calls FsModuleResolver::resolve_import while building the value that is cached per file: the cached ParsedModule freezes a file-system answer" % c.fn.id,
                   "%s:%s" % (c.file, c.line))
        rep.ob("C14.4", "scan", True, sample={"functions_reachable_from_parse_and_bind": len(pr), "host_queries": len(hits)})
    # ---------------------------------------------------------------- C14.10
    rep.rule("C14.10", "the JS side hands every update to the compiler session unconditionally, with the text it was given")
    from rules.c16 import _must_exec
    from rules import ts_common
    n_fw = 0
    for cn_, c_ in sorted(bundler_ts.classes.items()):
        for mn_, m_ in sorted(c_.methods.items()):
            fn_ = m_["function"]
            if fn_.get("body") is None:
                continue
            calls_ = [x for x in tsast.walk(fn_) if x["type"] == "CallExpression" and tsast.s(x["callee"]).endswith(".update_file_content")]
            if not calls_:
                continue
            n_fw += 1
            ps_ = [p for p in ts_common.fn_params(fn_) if p]
            def pred_(x, ps_=ps_):
                return x["type"] == "CallExpression" and tsast.s(x["callee"]).endswith(".update_file_content") and \
                    [tsast.s(a_["expression"]) for a_ in x["arguments"]] == ps_[:2]
            ok_ = len(ps_) >= 2 and _must_exec(fn_["body"]["stmts"], pred_)
            rep.ob("C14.10", "%s.%s/forwards-unconditionally" % (cn_, mn_), ok_,
                   "%s.%s does not call the compiler's update_file_content(%s) on every normal path: an update that is skipped (equal to a cached text, empty, ..) leaves the session with the previous contents of the file - a cache on the JS side can hold a text the compiler never received (it is also filled when diagnostics are rendered)" % (cn_, mn_, ", ".join(ps_[:2])),
                   bundler_ts.loc(fn_), sample={"method": "%s.%s" % (cn_, mn_)})
    rep.floor("C14.10", "JS methods that forward updates to the wasm session", n_fw, 1)
    # ---------------------------------------------------------------- C14.6
    rep.rule("C14.6", "the watch loop forwards every change of a watched file to the compiler before rebuilding")
    cmd = cx.ts("packages/beff-wasm/ts-node/commandeer.ts")
    cbs = []
    for n in tsast.walk(cmd.module):
        if n["type"] == "CallExpression":
            mc = tsast.method_call(n)
            if mc and mc[1] == "on" and mc[2] and tsast.s(mc[2][0]) == '"change"' and len(mc[2]) == 2:
                cbs.append(mc[2][1])
    rep.ob("C14.6", "change-handler", len(cbs) == 1, "expected exactly one chokidar `change` handler in commandeer.ts, found %d" % len(cbs), cmd.rel)
    def _resolve_handler(e, site, hops=0):
        """function literals a handler expression can stand for: a const bound to one, or a parameter of the function
        the registration sits in - then whatever its callers pass at that position"""
        e = tsast.unparen(e)
        if e.get("type") in ("ArrowFunctionExpression", "FunctionExpression"):
            return [e]
        if e.get("type") != "Identifier" or hops > 2:
            return [e]
        for n in tsast.walk(cmd.module):
            if n["type"] == "VariableDeclarator" and n["id"].get("value") == e["value"] and n.get("init") is not None:
                return _resolve_handler(n["init"], n, hops + 1)
        from rules import ts_common as _tc2
        encl = [(nm, f_) for nm, f_ in [(d_["id"].get("value"), d_["init"]) for d_ in tsast.walk(cmd.module) if d_["type"] == "VariableDeclarator" and d_.get("init") is not None
                                        and d_["init"].get("type") in ("ArrowFunctionExpression", "FunctionExpression")] + list(cmd.functions.items())
                if any(x is site for x in tsast.walk(f_)) and e["value"] in [p_ for p_ in _tc2.fn_params(f_) if p_]]
        if not encl:
            return [e]
        nm, f_ = min(encl, key=lambda t_: t_[1]["span"]["end"] - t_[1]["span"]["start"])
        idx = _tc2.fn_params(f_).index(e["value"])
        outs = []
        for c_ in tsast.walk(cmd.module):
            if c_["type"] == "CallExpression" and tsast.unparen(c_["callee"]).get("type") == "Identifier" and tsast.unparen(c_["callee"])["value"] == nm and idx < len(c_["arguments"]):
                outs += _resolve_handler(c_["arguments"][idx]["expression"], c_, hops + 1)
        return outs or [e]
    cb_sites = {}
    for n in tsast.walk(cmd.module):
        if n["type"] == "CallExpression":
            mc = tsast.method_call(n)
            if mc and mc[1] == "on" and mc[2] and tsast.s(mc[2][0]) == '"change"' and len(mc[2]) == 2:
                cb_sites[id(mc[2][1])] = n
    for cb0 in cbs:
      for cb in _resolve_handler(cb0, cb_sites.get(id(cb0))):
          fn = cb
          if fn.get("type") not in ("ArrowFunctionExpression", "FunctionExpression"):
              rep.ob("C14.6", "change-handler/body", False, "change handler is not a function literal", cmd.loc(cb))
              continue
          from rules import ts_common
          ps = ts_common.fn_params(fn)
          upd = [n for n in tsast.walk(fn) if n["type"] == "CallExpression" and tsast.s(n["callee"]).replace("?", "").endswith(".updateFileContent")]
          # the rebuild, by role: a call of a local function value (a const arrow / function declared in the module or
          # in an enclosing function, or a parameter of an enclosing function) that hands the same compiler object on
          bobj = tsast.s(tsast.unparen(upd[0]["callee"])["object"] if upd and tsast.unparen(upd[0]["callee"]).get("type") == "MemberExpression" else upd[0]["callee"]["base"]["object"]).rstrip("?") if upd else None
          local_fns = {}
          enclosing_params = set()
          for n in tsast.walk(cmd.module):
              if n["type"] == "VariableDeclarator" and n["id"].get("type") == "Identifier" and n.get("init") is not None and n["init"].get("type") in ("ArrowFunctionExpression", "FunctionExpression"):
                  local_fns[n["id"]["value"]] = n["init"]
              if n["type"] in ("ArrowFunctionExpression", "FunctionExpression", "FunctionDeclaration") and n is not fn and any(x is fn for x in tsast.walk(n)):
                  enclosing_params |= {p_ for p_ in ts_common.fn_params(n) if p_}
          for fname_, d_ in cmd.functions.items():
              local_fns[fname_] = d_

          def hands_compiler_on(f_):
              return any(c_["type"] == "CallExpression" and any(tsast.s(a_["expression"]).rstrip("?") == bobj for a_ in c_["arguments"]) for c_ in tsast.walk(f_))
          ex = []
          for n in tsast.walk(fn):
              if n["type"] == "CallExpression" and tsast.unparen(n["callee"]).get("type") == "Identifier":
                  cn_ = tsast.unparen(n["callee"])["value"]
                  if cn_ in enclosing_params or (cn_ in local_fns and bobj and hands_compiler_on(local_fns[cn_])):
                      ex.append(n)
          al = ts_common.local_aliases(fn)
          ok = len(upd) == 1 and len(ex) == 1 and upd[0]["span"]["start"] < ex[0]["span"]["start"]
          if ok:
              a0, a1 = [tsast.s(a["expression"]) for a in upd[0]["arguments"]]
              src = al.get(a1)
              if src is None and len(upd[0]["arguments"]) == 2 and tsast.unparen(upd[0]["arguments"][1]["expression"]).get("type") == "CallExpression":
                  src = tsast.unparen(upd[0]["arguments"][1]["expression"])     # read in place
              ok = a0 == ps[0] and src is not None and tsast.s(src).startswith("fs.readFileSync(%s" % ps[0])
          rep.ob("C14.6", "change-handler/update-then-rebuild", ok,
                 "on a change of file p the handler must call updateFileContent(p, <content just read from p>) and then rebuild", cmd.loc(fn),
                 sample={"update_calls": len(upd), "rebuild_calls": len(ex)})
          # nothing may leave the handler between the read and the update (an edit that is skipped keeps the stale module cached)
          early = [n for n in tsast.walk_no_nested_fn(fn["body"]) if n["type"] in ("ReturnStatement", "ContinueStatement", "BreakStatement") and upd and n["span"]["start"] < upd[0]["span"]["start"]]
          cond = [i for i in tsast.walk(fn) if i["type"] in ("IfStatement", "ConditionalExpression") and upd and any(x is upd[0] for x in tsast.walk(i))]
          rep.ob("C14.6", "change-handler/unconditional", not early and not cond,
                 "the change handler can skip updateFileContent (%s): the session cache then keeps the module parsed from the old text and later rebuilds differ from a fresh process" % (
                     "early exit before the update" if early else "update is conditional"), cmd.loc((early or cond or [fn])[0]))
    # the change event reports the path that was handed to `watch`, and the handler uses it as the KEY of the session
    # cache: it must be the very string the compiler asked to read (the parameter of the read callback), not a
    # canonicalised spelling of it (realpath, resolve, normalize): the cache entry under the compiler's spelling would
    # never be replaced
    n_watch = 0
    for n in tsast.walk(cmd.module):
        if n["type"] != "CallExpression":
            continue
        mc = tsast.method_call(n)
        if not mc or mc[1] != "watch" or not mc[2]:
            continue
        # only watches whose events reach the change handler
        if not any(x["type"] == "CallExpression" and tsast.method_call(x) and tsast.method_call(x)[1] == "on" and any(y is n for y in tsast.walk(tsast.method_call(x)[0])) for x in tsast.walk(cmd.module)):
            continue
        n_watch += 1
        arg = tsast.unparen(mc[2][0])
        encl = [f_ for f_ in tsast.walk(cmd.module) if f_["type"] in ("ArrowFunctionExpression", "FunctionExpression", "FunctionDeclaration") and any(x is n for x in tsast.walk(f_))]
        inner = min(encl, key=lambda f_: f_["span"]["end"] - f_["span"]["start"]) if encl else None
        from rules import ts_common as _tc
        ok = arg.get("type") == "Identifier" and inner is not None and arg["value"] in [p_ for p_ in _tc.fn_params(inner) if p_]
        rep.ob("C14.6", "watch/path-is-the-compilers-key", ok,
               "the path handed to the file watcher (`%s`) is not the very path the compiler asked to read: change events - and with them the key updateFileContent replaces - then use another spelling than the session cache, whose entry is never refreshed (a file reached through a symlink keeps its first content for the life of the session)" % tsast.s(arg)[:40],
               cmd.loc(n))
    rep.floor("C14.6", "watch registrations feeding the change handler", n_watch, 1)
    # ---------------------------------------------------------------- C14.8
    rep.rule("C14.8", "parsed modules kept by the session are immutable and carry no memo")
    cached_modules_immutable_rule(cx, rep, "C14.8")
    # ---------------------------------------------------------------- C14.7
    rep.rule("C14.7", "cache-only module lookups are used for certainly-loaded files only")
    cache_only_lookup_rule(cx, rep, "C14.7")
    # ---------------------------------------------------------------- C14.5
    rep.rule("C14.5", "JS caches keyed by file are invalidated by Bundler.updateFileContent")
    upd = bc.method_fn("updateFileContent")
    upd_txt = tsast.s(upd["body"]["stmts"][0].get("argument") or upd["body"]["stmts"][0].get("expression")) if upd["body"]["stmts"] else ""
    # (helpers of the module it calls are part of it: `rememberFileContent(name, content)` writing the cache)
    touched = {n["value"] for n in tsast.walk_inl(bundler_ts, bc.name if hasattr(bc, "name") else None, upd, depth=2) if n["type"] == "Identifier"}
    fkc = js_file_keyed_caches(bundler_ts)
    for name in sorted(fkc):
        # keyed by what the cache is filled from (its name is the maintainers' business)
        rep.ob("C14.5", "js-cache/filled-by:%s" % "+".join(sorted(fkc[name])), name in touched,
               "module-level cache `%s` in bundler.ts is filled from the file system and never invalidated when a file is updated (updateFileContent does not touch it)" % name,
               bundler_ts.loc(bundler_ts.vars[name][2]))
    # ---------------------------------------------------------------- C14.9
    rep.rule("C14.9", "twin accessors of the module tables agree (type / value)")
    import twins
    twins.twin_rule(cx, rep, "C14.9", r"swc_tools/", floor=2)


INTERIOR = re.compile(r"\b(RefCell|Cell|OnceCell|LazyCell|Mutex|RwLock|Atomic\w+|UnsafeCell|DashMap|OnceLock)\b")
HANDLE_MUTATORS = re.compile(r"(Comments>?::(take_|add_|move_)\w+|DashMap<[^>]*>::(insert|remove|clear|alter|alter_all|entry|get_mut|iter_mut|retain|remove_if|shrink_to_fit)|::borrow_mut|::get_or_init|::set|::replace|::swap|::take|::store|::fetch_\w+|::lock|::write)$")


def cached_modules_immutable_rule(cx, rep, rid):
    """A parsed module is kept by the session (file name -> Rc<ParsedModule>) and handed to every later rebuild.  It may
    therefore not change after parse_and_bind, nor carry a memo of its own: (a) no struct reachable from ParsedModule has
    a field with interior mutability (RefCell, Cell, Mutex, atomics, DashMap ..) - such a field is a cache that outlives
    the rebuild in which it was filled; (b) the one interior-mutable handle that comes from swc (the comment map) is
    only read: no removing / adding call on it outside the parser."""
    F = cx.rs
    root = F.adts.get("ParsedModule")
    if root is None:
        rep.anchor_missing(rid, "ADT ParsedModule")
        return
    # (a) local ADTs reachable through field types
    core_adts = {gid: a for gid, a in F.adts.items() if a["crate"] != WASM}
    seen = set()
    work = ["ParsedModule"]
    handle_types = set()
    n_fields = 0
    while work:
        gid = work.pop()
        if gid in seen or gid not in core_adts:
            continue
        seen.add(gid)
        a = core_adts[gid]
        for v in a["variants"]:
            for fl in v["fields"]:
                n_fields += 1
                ty = fl["ty"]
                m = INTERIOR.search(ty)
                rep.ob(rid, "field/%s.%s" % (gid, fl["name"]), m is None,
                       "%s.%s : %s - a field with interior mutability inside a parsed module is a cache that outlives the rebuild in which it was filled (the module is shared by all later rebuilds and is not evicted when OTHER files change)" % (gid, fl["name"], ty),
                       "%s:%s" % (a["file"], a["line"]), sample={"adt": gid, "field": fl["name"]})
                if re.search(r"\b(SwcComments|SingleThreadedComments)\b", ty):
                    handle_types.add(ty)
                for other in core_adts:
                    if other not in seen and re.search(r"(?<![\w])%s(?![\w])" % re.escape(other.rsplit("::", 1)[-1]), ty):
                        work.append(other)
    rep.floor(rid, "fields of the types reachable from ParsedModule", n_fields, 15)
    # (b) mutating calls on interior-mutable handles, anywhere outside the parser
    n_calls = 0
    for g in sorted(F.fns):
        f = F.fns[g]
        if not f.mir or f.crate == WASM or "test_tools" in g or "::tests::" in g or (f.file or "").endswith("swc_tools/parse.rs"):
            continue
        for c in f.calls:
            p_ = c.best or c.path or ""
            if "Comments" in p_ or "DashMap" in p_:
                n_calls += 1
                bad = HANDLE_MUTATORS.search(p_) is not None
                rep.ob(rid, "handle-call/%s" % strip_g(f.id), not bad,
                       "%s calls %s on the comment map of a parsed module: the module is shared with every later rebuild, which then sees it changed (e.g. no JSDoc descriptions left)" % (f.id, p_),
                       "%s:%s" % (c.file, c.line), sample={"fn": f.id, "call": p_})
    rep.floor(rid, "uses of the comment map outside the parser", n_calls, 1)


def cache_only_lookup_rule(cx, rep, rid):
    """FileManager has two accessors: get_or_fetch_file loads a module on demand, get_existing_file answers only from
    what the session has already loaded - its answer depends on which files earlier builds / earlier lookups happened
    to touch.  It is therefore only sound for a file that is certainly loaded: the file an Anchor points into (anchors
    are created while that file is being processed) or the visitor's current file.  A name taken from an import /
    re-export table must go through get_or_fetch_file, otherwise a rebuild (or a build with another lookup order)
    resolves differently from a fresh process."""
    F = cx.rs
    from mirflow import op_place

    def kinds(f, flow, operand, depth, seen):
        pl = op_place(operand)
        if pl is None:
            return {"other:constant"}
        out = set()
        projs = [p for p in pl["p"] if p != "*"]
        for p in projs:
            if re.search(r"^f:(\w+::)*Anchor::f$", p):
                return {"anchor-file"}
            if p.endswith("::current_file"):
                return {"current-file"}
            if re.search(r"^f:(\w+::)*(ImportReference|SymbolExport|SymbolsExportsModule|UnresolvedExport)\b", p):
                return {"table:%s" % p[2:]}
        l = pl["l"]
        if (l, tuple(projs)) in seen:
            return out
        seen = seen | {(l, tuple(projs))}
        argc = f.mir["arg_count"]
        defs = flow.defs_of(l)
        if 1 <= l <= argc and not defs:
            ty = f.mir["locals"][l].get("ty") or ""
            if "Anchor" in ty and not projs:
                return {"anchor-file"}
            if depth >= 2:
                return {"other:parameter of %s" % f.name}
            callers = [(g, c) for g in F.fns.values() if g.mir for c in g.calls if f.id in (c.local_target or [])]
            if not callers:
                return {"other:parameter of %s (no caller found)" % f.name}
            for g, c in callers:
                if l - 1 < len(c.term["args"]):
                    out |= kinds(g, FnFlow(g), c.term["args"][l - 1], depth + 1, set())
            return out
        for bi, d in defs:
            rv = d.get("rv")
            if rv is None:
                callee = (d.get("callee") or {}).get("path") or "?"
                m = callee.rsplit("::", 1)[-1]
                if m in ("clone", "deref", "borrow", "as_ref", "to_owned") and d["args"]:
                    out |= kinds(f, flow, d["args"][0], depth, seen)
                elif m in ("next", "next_back", "find", "get", "iter", "into_iter", "pop", "first", "last", "resolve_import"):
                    out.add("table:element or answer obtained through %s" % callee)
                else:
                    out.add("other:result of %s" % callee)
            elif rv["k"] in ("Use", "Cast"):
                out |= kinds(f, flow, rv["op"], depth, seen)
            elif rv["k"] in ("Ref", "CopyForDeref", "RawPtr"):
                out |= kinds(f, flow, {"k": "copy", "place": rv["place"]}, depth, seen)
            else:
                out.add("other:%s" % rv["k"])
        return out
    n = 0
    for g in sorted(F.fns):
        f = F.fns[g]
        if not f.mir or f.crate == WASM or "test_tools" in g or "::tests::" in g:
            continue
        for c in f.calls:
            if not (c.path or "").endswith("FileManager::get_existing_file") or len(c.term["args"]) < 2:
                continue
            n += 1
            ks = kinds(f, FnFlow(f), c.term["args"][1], 0, set())
            # decided part: the key is never an element of a collection / a field of an import or export record / a
            # resolver answer (files that nothing guarantees to be loaded); keys handed down through parameters are the
            # file being processed and are not decided
            bad = sorted(k for k in ks if k.startswith("table:"))
            rep.ob(rid, "existing-only/%s" % strip_g(f.id), not bad,
                   "%s asks the file manager for an ALREADY LOADED module with a key that is not the file of an Anchor / the current file (%s): whether the answer exists depends on what the session loaded before, so the same sources resolve differently in a fresh process" % (
                       f.id, bad or "unknown"), "%s:%s" % (c.file, c.line), sample={"fn": f.id, "key_is": sorted(ks)})
    rep.floor(rid, "cache-only lookups (get_existing_file)", n, 3)


def strip_g(s_):
    out, d = [], 0
    for ch in s_:
        if ch == "<":
            d += 1
        elif ch == ">":
            d -= 1
        elif d == 0:
            out.append(ch)
    return "".join(out).replace("::::", "::")


def key_from_param(F, f, org, param_no, depth=0, entry=None, scope=None):
    """does an origin set reach parameter `param_no` of the export function (`entry`: set of ids), through closure
    captures and through the parameters of the local helpers between the export and the cache write?  In a helper every
    call site on the update path (`scope`) must hand over a key that does."""
    if f.kind != "Closure":
        ps = sorted(o[1] for o in org if o[0] == "param")
        if entry is None or f.id in entry:
            return param_no in ps
        if depth > 6 or not ps:
            return False
        sites = [(p, c) for p in F.fns.values() if p.mir and (scope is None or p.id in scope)
                 for c in p.calls if f.id in (c.local_target or [])]
        for p, c in sites:
            O = Origins(FnFlow(p))
            args = c.term["args"]
            if not any(k - 1 < len(args) and key_from_param(F, p, O.of_operand(args[k - 1]), param_no, depth + 1, entry, scope) for k in ps):
                return False
        return bool(sites)
    if depth > 6:
        return False
    # map upvars to the operands of the closure aggregate in the parent
    ups = [o[1] for o in org if o[0] == "upvar"]
    parents = [p for p in F.fns.values() if p.mir and f.id in F.edges.get(p.id, ())]
    for p in parents:
        flow = FnFlow(p)
        O = Origins(flow)
        for b in flow.blocks:
            for st in b["stmts"]:
                if st["k"] == "Assign" and st["rv"]["k"] == "Aggregate" and st["rv"].get("agg") == "Closure" \
                        and F._callee_gid(p.crate, st["rv"]["closure"]) == f.id:
                    for i in ups:
                        if i < len(st["rv"]["ops"]):
                            po = O.of_operand(st["rv"]["ops"][i])
                            if key_from_param(F, p, po, param_no, depth + 1, entry, scope):
                                return True
    return False


def js_module_state(mod):
    """module-level bindings that can carry state between calls: `let`/`var`, or const bound to an
    object/array/Map/Set literal that some function writes (member assignment, delete, mutator call)"""
    out = {}
    for name, (kind, init, decl) in mod.vars.items():
        if init is not None and init["type"] in ("ArrowFunctionExpression", "FunctionExpression"):
            continue
        if kind in ("let", "var"):
            out[name] = kind
            continue
        it = tsast.unparen(init) if init else None
        if it is None:
            continue
        if it["type"] in ("ObjectExpression", "ArrayExpression") or (it["type"] == "NewExpression" and tsast.s(it["callee"]) in ("Map", "Set", "WeakMap")):
            if js_written(mod, name):
                out[name] = "const container written at run time"
    return out


def js_written(mod, name):
    for n in tsast.walk(mod.module):
        t = n["type"]
        if t == "AssignmentExpression":
            l = tsast.unparen(n["left"])
            while l.get("type") == "MemberExpression":
                l = tsast.unparen(l["object"])
                if l.get("type") == "Identifier" and l["value"] == name:
                    return True
        elif t == "UnaryExpression" and n["operator"] == "delete":
            if tsast.s(n["argument"]).startswith(name + "[") or tsast.s(n["argument"]).startswith(name + "."):
                return True
        elif t == "CallExpression":
            mc = tsast.method_call(n)
            if mc and tsast.s(mc[0]) == name and mc[1] in ("set", "add", "push", "delete", "clear", "splice", "pop", "shift"):
                return True
    return False


def js_file_keyed_caches(mod):
    """const containers written at run time whose written value derives from fs reads / module resolution"""
    out = {}
    for name, (kind, init, decl) in mod.vars.items():
        if kind != "const" or init is None or tsast.unparen(init)["type"] != "ObjectExpression":
            continue
        if not js_written(mod, name):
            continue
        # the function that writes it - or, when the write sits in a small helper that is handed the value, a
        # function that calls that helper - also calls fs.* or a resolve* helper
        units = {}
        for fname, (k2, i2, d2) in mod.vars.items():
            if i2 is not None and i2["type"] in ("ArrowFunctionExpression", "FunctionExpression"):
                units[fname] = i2
        for fname, fn in mod.functions.items():
            if fn.get("body") is not None:
                units.setdefault(fname, fn)
        for cname, c in mod.classes.items():
            for mname, m in c.methods.items():
                if m["function"].get("body") is not None:
                    units["%s.%s" % (cname, mname)] = m["function"]
        info = {}
        for uname, fn in units.items():
            writes = False
            reads_host = set()
            callees = set()
            for n in tsast.walk(fn):
                if n["type"] == "AssignmentExpression" and tsast.s(n["left"]).startswith(name + "["):
                    writes = True
                if n["type"] == "CallExpression":
                    cs = tsast.s(n["callee"])
                    if cs.startswith("fs."):
                        reads_host.add(cs)
                    elif cs.startswith("resolve"):
                        reads_host.add("resolve*")
                    if tsast.unparen(n["callee"]).get("type") == "Identifier":
                        callees.add(tsast.unparen(n["callee"])["value"])
            info[uname] = (writes, reads_host, callees)
        writers = {u for u, (w, _, _) in info.items() if w}
        for depth in range(3):
            for u in list(writers):
                if info[u][1]:
                    out.setdefault(name, set()).update(info[u][1])
            if name in out:
                break
            writers = {u for u, (_, _, cs) in info.items() if cs & writers} - writers or set()
            if not writers:
                break
    return out
