"""C06 — type-level union / intersection / difference / complement are exact set operations.

C06.1  every return path of BddOps::{intersect,union,diff,complement}, Bdd::from_node, Bdd::from_atom
       equals the set semantics of the operation (inductive step, exhaustive truth tables)
C06.2  every arm of ProperSubtypeOps::{intersect,union,diff,complement} and of the four
       SubType::<x>_subtype constructors equals the set semantics on allowed/excluded literal sets,
       and builds its result in the family (variant / tag) its pattern selected
C06.3  per-tag bit formulas and pair dispatch of SemTypeOps::{intersect,union,diff}
C06.4  bdd_to_dnf_recursive: push/pop pairing and clause emission; dnf_to_bdd folds
"""
import itertools
import re
import armalg
from armalg import V, T, Fz, AND, OR, NOT, IFF, NODE, F, Val, Interp, Model, Uninterpretable, check_path
from facts import walk

LEVEL = "proof"

BDD = "subtyping::bdd::Bdd"
PS = "subtyping::subtype::ProperSubtype"
ST = "subtyping::subtype::SubType"


def build_model(F_):
    m = Model()
    m.op_traits = {"subtyping::bdd::BddOps", "subtyping::subtype::ProperSubtypeOps"}
    m.node_ctor = (BDD + "::Node", BDD + "::from_node")
    m.true_false = {BDD + "::True": T, BDD + "::False": Fz}
    m.wrap_variants = {PS + "::Mapping": "Mapping", PS + "::List": "List", PS + "::Map": "Map", PS + "::Set": "Set",
                       ST + "::Proper": None}
    m.const_variants = {ST + "::False": Fz, ST + "::True": T}
    m.litset_structs = {PS + "::Number": ("Number", "allowed", "values"), PS + "::String": ("String", "allowed", "values"),
                        PS + "::TypedArray": ("TypedArray", "allowed", "values"),
                        PS + "::VoidUndefined": ("VoidUndefined", "allowed", "values")}
    m.bool_variant = PS + "::Boolean"
    # the three primitives on sorted value lists (trusted, see DESIGN): located by signature - two lists of the same
    # element type in, a list out, in the engine - and told apart by the operation their name carries, wherever a
    # refactoring has moved them (a submodule) or whatever prefix it gave them
    m.vec_ops = {}
    for g, f in F_.fns.items():
        ins = f.inputs or []
        if "/src/subtyping/" in (f.file or "") and len(ins) == 2 and ins[0] == ins[1] and re.match(r"^&(\[|std::vec::Vec<)", ins[0]) and "Vec<" in (f.output or ""):
            nm = g.rsplit("::", 1)[-1].lower()
            for op in ("union", "intersect", "diff"):
                if op in nm:
                    m.vec_ops[g] = op
    if len(set(m.vec_ops.values())) < 3:
        m.vec_ops.update({"subtyping::subtype::sub_vec_union": "union", "subtyping::subtype::sub_vec_intersect": "intersect",
                          "subtyping::subtype::sub_vec_diff": "diff"})
    m.tag_enum_prefix = "subtyping::subtype::SubTypeTag::"
    # comparison wrappers, by role: functions of the diagram module that answer an Ordering
    m.cmp_fns = {g for g, f in F_.fns.items() if (f.file or "").endswith("subtyping/bdd.rs") and (f.output or "").endswith("cmp::Ordering")} | {"subtyping::bdd::atom_cmp"}
    m.hir = F_.hir
    return m


def spec_of(name, params):
    a = [V(p) for p in params]
    if name == "intersect":
        return AND(a[0], a[1])
    if name == "union":
        return OR(a[0], a[1])
    if name == "diff":
        return AND(a[0], NOT(a[1]))
    if name == "complement":
        return NOT(a[0])
    raise KeyError(name)


def param_names(tree):
    out = []
    for p in tree["params"]:
        if p["k"] != "P.Binding":
            raise Uninterpretable("parameter pattern", p["line"])
        out.append(p["name"])
    return out


def check_fn(rep, rid, F_, model, gid, spec_fn, tag_rule=False, min_paths=1):
    """interpret the body of gid; one obligation per return path"""
    f = F_.fns.get(gid)
    tree = F_.hir.get(gid)
    if f is None or tree is None:
        rep.anchor_missing(rid, gid)
        return 0
    try:
        params = param_names(tree)
        it = Interp(model, gid)
        rets = it.run(tree, [F(V(p)) for p in params])
        spec = spec_fn(params)
    except Uninterpretable as e:
        rep.ob(rid, "%s/uninterpretable" % short(gid), False,
               "cannot interpret %s (%s): the arm algebra fails closed on constructs it does not know" % (gid, e), "%s:%s" % (f.file, e.line))
        return 0
    n = 0
    per_line = {}
    for cons, val, ptags, line in rets:
        if val.kind == "unit":
            continue
        n += 1
        idx = per_line.get(line, 0)
        per_line[line] = idx + 1
        ok, rows, sat, cex = check_path(cons, val, spec)
        key = "%s/path%d" % (short(gid), n)
        if ok and sat == 0:
            rep.notes.append("%s line %s: path constraints unsatisfiable (dead arm)" % (gid, line))
        msg = ""
        if not ok:
            msg = "return at line %s of %s computes %s, which differs from the set semantics %s under the arm's constraints; counterexample %s" % (
                line, gid, armalg.show(val.f) if val.kind == "f" else val.kind, armalg.show(spec), cex)
        rep.ob(rid, key, ok, msg, "%s:%s" % (f.file, line),
               sample={"fn": short(gid), "line": line, "result": armalg.show(val.f) if val.kind == "f" else val.kind,
                       "spec": armalg.show(spec), "constraints": [armalg.show(c) for c in cons][:6], "rows": rows, "satisfying_rows": sat})
        if tag_rule and val.kind == "f" and val.tags and ptags:
            okt = val.tags <= ptags
            rep.ob(rid, key + "/family", okt,
                   "return at line %s of %s builds %s inside an arm selected by %s: result leaves the family of its operands" % (
                       line, gid, sorted(val.tags), sorted(ptags)), "%s:%s" % (f.file, line))
    if n < min_paths:
        rep.floor(rid, "return paths of %s" % short(gid), n, min_paths)
    return n


def short(g):
    return g.replace("std::rc::Rc<", "Rc<").replace("subtyping::", "")


def run(cx, rep):
    F_ = cx.rs
    model = build_model(F_)
    rep.explanation = (
        "Arm algebra (E-ARM): each function body is read from the typed HIR and interpreted, path by path, into a "
        "Boolean membership formula over the pattern-bound sub-values (a value of a set-like type denotes 'the fixed "
        "element x is a member'); recursive calls of the four operations are replaced by their specification "
        "(induction hypothesis of structural induction on the operands); every return path is compared with the "
        "specification of the operation on ALL assignments satisfying the path's pattern/guard constraints "
        "(<= 2^12 rows). Together with termination by structural descent this proves the decision-diagram layer and "
        "the allowed/excluded literal-set layer exact for all diagrams and all literal sets, not for sampled ones. "
        "Constructs the interpreter does not know fail closed.")
    rep.trusted = ["rustc typed HIR (resolved callees, patterns)", "the interpretation table in rules/c06.py (Node semantics a&l | m | !a&r; "
                   "sub_vec_union/intersect/diff denote the set operations on the format-free fragment)",
                   "truth-table evaluator lib/armalg.py"]
    rep.assumptions = ["sub_vec_* are taken as set union/intersection/difference (format-free fragment)",
                       "atoms denote fixed sets; structural equality of diagrams implies semantic equality"]
    total = 0
    # ---------------------------------------------------------------- C06.1
    rep.rule("C06.1", "BDD operations: every return path equals the set semantics (inductive step)")
    bdd_impl = "<std::rc::Rc<subtyping::bdd::Bdd> as subtyping::bdd::BddOps>::"
    floors = {"intersect": 8, "union": 8, "diff": 8, "complement": 6}
    for op in ("intersect", "union", "diff", "complement"):
        total += check_fn(rep, "C06.1", F_, model, bdd_impl + op, lambda ps, op=op: spec_of(op, ps), min_paths=floors[op])
    total += check_fn(rep, "C06.1", F_, model, BDD + "::from_node", lambda ps: NODE(V(ps[0]), V(ps[1]), V(ps[2]), V(ps[3])), min_paths=3)
    total += check_fn(rep, "C06.1", F_, model, BDD + "::from_atom", lambda ps: V(ps[0]), min_paths=1)

    # ---------------------------------------------------------------- C06.2
    rep.rule("C06.2", "literal-set / wrapper arms of ProperSubtypeOps and the SubType constructors")
    # the four constructors SubType::<x>_subtype(allowed, values): role = associated fns of SubType taking (bool, Vec<_>)
    ctors = [f for f in F_.fns.values() if f.impl_self == ST and len(f.inputs) == 2 and f.inputs[0] == "bool" and f.inputs[1].startswith("std::vec::Vec<")
             and (f.output or "").endswith("SubType")]
    rep.floor("C06.2", "SubType literal-set constructors", len(ctors), 4)
    for f in sorted(ctors, key=lambda x: x.id):
        n0 = len(rep.violations)
        total += check_fn(rep, "C06.2", F_, model, f.id, lambda ps: IFF(V(ps[0]), V(ps[1])), min_paths=3)
        # the tag the constructor builds: read from its own paths
        tree = F_.hir[f.id]
        tags = set()
        for n in walk(tree):
            if n["k"] == "Path" and (n.get("def") or "").startswith(model.tag_enum_prefix):
                tags.add(n["def"][len(model.tag_enum_prefix):])
            if n["k"] == "Struct" and n.get("def") in model.litset_structs:
                tags.add(model.litset_structs[n["def"]][0])
        rep.ob("C06.2", "%s/one-tag" % short(f.id), len(tags) == 1,
               "constructor %s mentions tags %s: its False/True/Proper results must all belong to one tag" % (f.id, sorted(tags)), f.loc())
        if len(tags) == 1:
            model.litset_fns[f.id] = list(tags)[0]
    ps_impl = "<std::rc::Rc<subtyping::subtype::ProperSubtype> as subtyping::subtype::ProperSubtypeOps>::"
    floors = {"intersect": 20, "union": 20, "diff": 6, "complement": 9}
    for op in ("intersect", "union", "diff", "complement"):
        total += check_fn(rep, "C06.2", F_, model, ps_impl + op, lambda ps, op=op: spec_of(op, ps), tag_rule=True, min_paths=floors[op])

    # ---------------------------------------------------------------- C06.3
    rep.rule("C06.3", "per-tag bit formulas and pair dispatch of SemTypeOps")
    check_semtype_ops(cx, rep, F_, model)

    # ---------------------------------------------------------------- C06.4
    rep.rule("C06.4", "DNF conversion: push/pop pairing, clause emission, folding back")
    check_dnf(cx, rep, F_)

    # ---------------------------------------------------------------- C06.6
    clause_simplification_rule(cx, rep, F_, "C06.6")
    # ---------------------------------------------------------------- C06.7
    variant_handling_rule(cx, rep, F_, "C06.7")

    # ---------------------------------------------------------------- C06.5
    rep.rule("C06.5", "the pairwise merge of two tag-sorted tables filters every entry by its own tag")
    merge_filter_rule(cx, rep, F_, "C06.5")

    rep.extra["paths_interpreted"] = total
    rep.analysed = {"functions_interpreted": 4 + 2 + len(ctors) + 4 + 3, "return_paths": total}


# ---------------------------------------------------------------------------
# C06.3

_HIR = {}


def _is_some_bits(e):
    """the call yields the bit set of tags for which the receiver has a PROPER part: a local method without arguments
    whose body folds `to_code()` of the elements of `subtype_data` (and does not read `all`), whatever it is called"""
    tg = e.get("resolved") or e.get("callee")
    t = _HIR.get(tg)
    if t is None or e["args"]:
        return False
    fields = {x["name"] for x in walk(t["body"]) if x["k"] == "Field"}
    codes = any(x["k"] == "MethodCall" and x["method"] == "to_code" for x in walk(t["body"]))
    return "subtype_data" in fields and "all" not in fields and codes


def bit_formula(e, env):
    """interpret a u32 bit expression over t1/t2 fields as a per-tag Boolean formula"""
    k = e["k"]
    if k == "Path" and e.get("res") == "local":
        if e["name"] in env:
            return env[e["name"]]
        raise Uninterpretable("unbound %s" % e["name"], e["line"])
    if k == "Field" and e["name"] == "all":
        base = e["e"]
        while base["k"] in ("Unary", "AddrOf"):
            base = base["e"]
        if base["k"] == "Path" and base.get("res") == "local":
            return V("A_" + base["name"])
    if k == "MethodCall" and _is_some_bits(e):
        base = e["recv"]
        while base["k"] in ("Unary", "AddrOf"):
            base = base["e"]
        if base["k"] == "Path" and base.get("res") == "local":
            return V("S_" + base["name"])
    if k == "Binary" and e["op"] in ("BitAnd", "BitOr"):
        l = bit_formula(e["l"], env)
        r = bit_formula(e["r"], env)
        return AND(l, r) if e["op"] == "BitAnd" else OR(l, r)
    if k == "Unary" and e["op"] == "Not":
        return NOT(bit_formula(e["e"], env))
    if k == "Unary" and e["op"] == "Deref":
        return bit_formula(e["e"], env)
    raise Uninterpretable("bit expression %s" % k, e.get("line"))


def check_semtype_ops(cx, rep, F_, model):
    _HIR.clear()
    _HIR.update(F_.hir)
    impl = "<std::rc::Rc<subtyping::semtype::ComplexSemType> as subtyping::semtype::SemTypeOps>::"
    for op in ("intersect", "union", "diff"):
        gid = impl + op
        tree = F_.hir.get(gid)
        f = F_.fns.get(gid)
        if tree is None:
            rep.anchor_missing("C06.3", gid)
            continue
        try:
            res = semtype_op_model(tree, op, F_.hir)
        except Uninterpretable as e:
            rep.ob("C06.3", "%s/uninterpretable" % op, False, "cannot interpret %s: %s" % (gid, e), "%s:%s" % (f.file, e.line))
            continue
        all_f, some_f, arms, folds_true, line_all = res
        # representation invariant of every SemType the operation builds: a tag is never both saturated (`all`) and
        # present with a proper part.  The tags whose proper parts are paired (the bits handed to the pair iterator)
        # must therefore exclude the saturated ones, otherwise stale proper data for a saturated tag survives and a
        # later intersect / diff pairs it with the other operand
        bits = getattr(semtype_op_model, "bits", [])
        clash = None
        for A1, S1, A2, S2 in itertools.product((False, True), repeat=4):
            if (A1 and S1) or (A2 and S2):
                continue
            env0 = {"A_t1": A1, "S_t1": S1, "A_t2": A2, "S_t2": S2}
            for b_ in bits:
                if armalg.ev(b_, env0) and armalg.ev(all_f, env0):
                    clash = dict(env0)
        rep.ob("C06.3", "%s/paired-tags-exclude-saturated" % op, bool(bits) and clash is None,
               "SemTypeOps::%s pairs proper parts for a tag that is already saturated in `all` (operand state %s): the result carries the tag both as saturated and with proper data (%s)" % (
                   op, clash, "no bits found" if not bits else "bits = %s" % armalg.show(bits[0])),
               "%s:%s" % (f.file, line_all), sample={"op": op, "paired_tags": [armalg.show(b_) for b_ in bits]})
        # per-tag abstract states of the two operands: (A, S) with not both; P = membership in the proper part
        spec = {"intersect": lambda a, b: a and b, "union": lambda a, b: a or b, "diff": lambda a, b: a and not b}[op]
        nrows = 0
        bad = None
        for A1, S1, P1, A2, S2, P2 in itertools.product((False, True), repeat=6):
            if (A1 and S1) or (A2 and S2):
                continue
            if (not S1 and P1) or (not S2 and P2):
                continue
            # a proper part is neither empty nor full: both P values occur for some element; rows enumerate elements
            env = {"A_t1": A1, "S_t1": S1, "A_t2": A2, "S_t2": S2}
            M1 = A1 or (S1 and P1)
            M2 = A2 or (S2 and P2)
            allb = armalg.ev(all_f, env)
            someb = armalg.ev(some_f, env) and not allb
            nrows += 1
            if not someb:
                got = allb
            else:
                d1 = S1
                d2 = S2
                key = ("Some" if d1 else "None", "Some" if d2 else "None")
                arm = arms.get(key)
                if arm is None:
                    got = allb
                else:
                    kind = arm[0]
                    if kind == "left":
                        pm = P1
                    elif kind == "right":
                        pm = P2
                    elif kind == "right_complement":
                        pm = not P2
                    elif kind == "left_complement":
                        pm = not P1
                    elif kind == "op":
                        a, b = (P1, P2) if not arm[2] else (P2, P1)
                        pm = {"intersect": a and b, "union": a or b, "diff": a and not b}[arm[1]]
                    else:
                        pm = False
                    got = allb or pm
            want = spec(M1, M2)
            if got != want and bad is None:
                bad = dict(A1=A1, S1=S1, P1=P1, A2=A2, S2=S2, P2=P2, got=got, want=want)
        rep.ob("C06.3", "%s/per-tag" % op, bad is None,
               "SemTypeOps::%s: for a tag in state %s the computed membership differs from the set semantics" % (op, bad),
               "%s:%s" % (f.file, line_all),
               sample={"op": op, "all": armalg.show(all_f), "some": armalg.show(some_f), "arms": {"%s,%s" % k: v[:2] for k, v in arms.items()},
                       "folds_True_into_all": folds_true, "abstract_rows": nrows})
        # a proper∘proper result can be the full tag only for union: then True must be folded into `all`
        need_fold = any(a[0] == "op" and a[1] == "union" for a in arms.values())
        rep.ob("C06.3", "%s/true-fold" % op, (not need_fold) or folds_true,
               "SemTypeOps::%s combines two proper parts with union but does not fold a SubType::True result into the all-bits" % op, f.loc())
        # pair arms call the same-named operation
        for k, a in arms.items():
            if a[0] == "op":
                rep.ob("C06.3", "%s/pair-op" % op, a[1] == op and not a[2],
                       "SemTypeOps::%s combines proper parts with %s%s" % (op, a[1], " (operands swapped)" if a[2] else ""), f.loc())


def semtype_op_model(tree, op, hir=None):
    """extract: formula of `all`, formula of `some`, the (Some/None,Some/None) arms, whether True results are folded"""
    body = tree["body"]
    env = {}
    all_f = some_f = None
    line_all = None
    arms = {}
    folds_true = False
    bits_f = []
    let_line = {}
    zero_tested = []
    ctor_first_args = []
    for n in walk(body):
        # every let-bound bit set is interpreted and bound under its own name (the locals are located by ROLE below:
        # the one compared with 0 / handed to the pair iterator is `some`, the one the result is built from is `all`)
        if n["k"] == "LetStmt" and n["pat"]["k"] == "P.Binding" and n.get("init") is not None:
            nm = n["pat"]["name"]
            if n["init"]["k"] == "Path" and n["init"].get("name") == "self":
                continue
            if (n["pat"].get("ty") or n["init"].get("ty") or "").replace("&", "").strip() in ("u32", "subtyping::subtype::BasicTypeBitSet", "BasicTypeBitSet"):
                try:
                    env[nm] = bit_formula(n["init"], dict(env, t1=None))
                    let_line[nm] = n["line"]
                except Uninterpretable:
                    pass
        if n["k"] == "AssignOp" and n["l"]["k"] == "Path" and n["l"].get("name") in env and n["op"] in ("BitAnd", "BitAndAssign"):
            env[n["l"]["name"]] = AND(env[n["l"]["name"]], bit_formula(n["r"], env))
        if n["k"] == "AssignOp" and n["l"]["k"] == "Path" and n["l"].get("name") in env and n["op"] in ("BitOr", "BitOrAssign"):
            folds_true = True
        if n["k"] == "Binary" and n["op"] in ("Eq", "Ne"):
            for a_, b_ in ((n["l"], n["r"]), (n["r"], n["l"])):
                if b_["k"] == "Lit" and str(b_.get("v")) == "0" and a_["k"] == "Path" and a_.get("name") in env:
                    zero_tested.append(a_["name"])
        if n["k"] == "Call" and (n.get("ty") or "").endswith("ComplexSemType") and len(n.get("args") or []) == 2 and (n["args"][0].get("ty") or "").replace("&", "").strip() in ("u32", "subtyping::subtype::BasicTypeBitSet", "BasicTypeBitSet"):
            a0 = n["args"][0]
            if a0["k"] == "Path" and a0.get("name") in env:
                ctor_first_args.append(a0["name"])
        # the same fold done by a private helper that receives `&mut all`
        if n["k"] == "Call" and hir is not None and n.get("callee") in hir:
            for ai, a in enumerate(n["args"]):
                if a["k"] == "AddrOf" and a.get("mut") and a["e"]["k"] == "Path" and a["e"].get("name") in env:
                    callee = hir[n["callee"]]
                    if ai < len(callee["params"]) and callee["params"][ai]["k"] == "P.Binding":
                        plid = callee["params"][ai].get("lid")
                        for m in walk(callee["body"]):
                            if m["k"] != "Match":
                                continue
                            for arm in m["arms"]:
                                if not (arm["pat"].get("def") or "").endswith("SubType::True"):
                                    continue
                                for x in walk(arm["body"]):
                                    if x["k"] == "AssignOp" and x["op"] in ("BitOr", "BitOrAssign") and any(
                                            y["k"] == "Path" and y.get("lid") == plid for y in walk(x["l"])):
                                        folds_true = True
        # the tags for which proper parts are paired: the `bits` given to the pair iterator (struct literal or ::new)
        if n["k"] == "Struct" and (n.get("def") or "").endswith("SubTypePairIterator"):
            for fl in n["fields"]:
                if fl["name"] in ("bits", "selected_tags") or (fl["e"].get("ty") or "").endswith("u32"):
                    try:
                        bits_f.append(bit_formula(fl["e"], env))
                    except Uninterpretable:
                        pass
        if n["k"] == "Call" and re.search(r"SubTypePairIterator(::<[^>]*>)?::new$", n.get("callee") or "") and n["args"]:
            try:
                bits_f.append(bit_formula(n["args"][-1], env))
            except Uninterpretable:
                pass
        if n["k"] == "Match" and n["scrut"]["k"] == "Tup" and len(n["scrut"]["es"]) == 2:
            for a in n["arms"]:
                p = a["pat"]
                if p["k"] != "P.Tuple":
                    continue
                ks = []
                names = []
                for sp in p["pats"]:
                    d = sp.get("def", "")
                    if d.endswith("::Some"):
                        ks.append("Some")
                        names.append(sp["pats"][0].get("name"))
                    elif d.endswith("::None"):
                        ks.append("None")
                        names.append(None)
                    else:
                        ks.append("_")
                        names.append(None)
                arms[tuple(ks)] = classify_pair_arm(a["body"], names)
    if ctor_first_args:
        all_f = env[ctor_first_args[0]]
        line_all = let_line.get(ctor_first_args[0])
    if zero_tested:
        some_f = env[zero_tested[0]]
    elif bits_f:
        some_f = bits_f[0]
    if all_f is None or some_f is None:
        raise Uninterpretable("all/some definitions not found", body.get("line"))
    # rename: self is t1
    semtype_op_model.bits = [rename(b) for b in bits_f]
    return rename(all_f), rename(some_f), {k: v for k, v in arms.items() if "_" not in k}, folds_true, line_all


def rename(f):
    if f[0] == "var":
        return ("var", f[1].replace("_self", "_t1"))
    if f[0] == "const":
        return f
    return (f[0],) + tuple(rename(x) for x in f[1:])


def classify_pair_arm(body, names):
    """('left'|'right'|'right_complement'|'op', opname, swapped)"""
    calls = [n for n in walk(body) if n["k"] == "MethodCall" and n["method"] in ("intersect", "union", "diff", "complement")]
    locals_used = [n["name"] for n in walk(body) if n["k"] == "Path" and n.get("res") == "local"]
    if not calls:
        if names[0] and names[0] in locals_used:
            return ("left", None, False)
        if names[1] and names[1] in locals_used:
            return ("right", None, False)
        return ("none", None, False)
    c = calls[0]
    recv = [n["name"] for n in walk(c["recv"]) if n["k"] == "Path" and n.get("res") == "local"]
    if c["method"] == "complement":
        if names[1] and names[1] in recv:
            return ("right_complement", None, False)
        return ("left_complement", None, False)
    swapped = bool(recv and names[1] and recv[0] == names[1])
    return ("op", c["method"], swapped)


# ---------------------------------------------------------------------------
# C06.4

def check_dnf(cx, rep, F_):
    # located by role: the self-recursive function over a Bdd that threads two equally typed `&mut Vec<Atom>` stacks
    # (positive first, negative second) and an output accumulator
    cands = []
    for f in F_.fns.values():
        if not f.mir or f.kind == "Closure" or f.id not in F_.hir:
            continue
        ins = f.inputs or []
        if not ins or "Bdd" not in ins[0] or f.id not in F_.edges.get(f.id, ()):
            continue
        st = [i for i, t in enumerate(ins) if t.startswith("&mut std::vec::Vec<") and "Atom" in t]
        if len(st) == 2 and ins[st[0]] == ins[st[1]]:
            cands.append((f, st, None))
    # the same walk with its state in a struct: a self-recursive method fn(&mut S, &Bdd) where S holds the two stacks
    # (the two equally typed Vec<Atom> fields, positive declared first) next to the accumulator
    for f in F_.fns.values():
        if not f.mir or f.kind == "Closure" or f.id not in F_.hir or f.id not in F_.edges.get(f.id, ()):
            continue
        ins = f.inputs or []
        if len(ins) < 2 or not ins[0].startswith("&mut ") or not any("Bdd" in t for t in ins[1:]):
            continue
        sname = ins[0][5:].split("<")[0]
        adt = next((a for k_, a in F_.adts.items() if k_ == sname or k_.endswith("::" + sname)), None)
        if adt is None or adt.get("kind") != "Struct":
            continue
        flds = [x for x in adt["variants"][0]["fields"] if x["ty"].startswith("std::vec::Vec<") and x["ty"].endswith("Atom>")]
        if len(flds) == 2 and flds[0]["ty"] == flds[1]["ty"]:
            cands.append((f, None, (flds[0]["name"], flds[1]["name"])))
    if len(cands) != 1:
        rep.anchor_missing("C06.4", "the DNF path collector (self-recursive fn(&Bdd, &mut Vec<Atom>, &mut Vec<Atom>, ..) or method of a struct holding the two stacks); found %d" % len(cands))
        return
    f, st, sflds = cands[0]
    tree = F_.hir[f.id]
    plids = [p.get("lid") if p["k"] == "P.Binding" else None for p in tree["params"]]
    if st is not None:
        role = {plids[st[0]]: "pos", plids[st[1]]: "neg"}
    else:
        role = {("field", sflds[0]): "pos", ("field", sflds[1]): "neg"}
    fld = {}
    for n in walk(tree["body"]):
        if n["k"] == "P.Struct" and (n.get("def") or "").endswith("Bdd::Node"):
            for fl in n["fields"]:
                for bnd in walk(fl["pat"]):
                    if bnd["k"] == "P.Binding":
                        fld[bnd.get("lid")] = fl["name"]
    # the Node arm: sequence of statements; recursive calls on left/middle/right, push/pop on pos/neg
    seq = []
    for n in walk(tree["body"]):
        if n["k"] == "Match":
            for a in n["arms"]:
                if a["pat"].get("def", "").endswith("Bdd::Node") or (a["pat"]["k"] == "P.Struct"):
                    seq = linear_events(F_, f, a["body"], role, fld)
                if a["pat"].get("def", "").endswith("Bdd::True"):
                    ev_true = linear_events(F_, f, a["body"], role, fld)
                    rep.ob("C06.4", "clause-at-True", any(e[0] == "push" and e[1] not in ("pos", "neg") for e in ev_true),
                           "%s: the True arm must emit the accumulated clause" % f.name, "%s:%s" % (f.file, a["line"]))
                if a["pat"].get("def", "").endswith("Bdd::False"):
                    ev_false = linear_events(F_, f, a["body"], role, fld)
                    rep.ob("C06.4", "no-clause-at-False", not any(e[0] == "push" for e in ev_false),
                           "%s: the False arm must not emit a clause" % f.name, "%s:%s" % (f.file, a["line"]))
    # expected shape: rec(middle) with balanced stacks; push pos, rec(left), pop pos; push neg, rec(right), pop neg
    depth = {"pos": 0, "neg": 0}
    ok = True
    recs = {}
    for e in seq:
        if e[0] == "push" and e[1] in depth:
            depth[e[1]] += 1
        elif e[0] == "pop" and e[1] in depth:
            depth[e[1]] -= 1
            if depth[e[1]] < 0:
                ok = False
        elif e[0] == "rec":
            recs[e[1]] = dict(depth)
    want = {"left": {"pos": 1, "neg": 0}, "right": {"pos": 0, "neg": 1}, "middle": {"pos": 0, "neg": 0}}
    for br, w in want.items():
        rep.ob("C06.4", "recursion-%s" % br, recs.get(br) == w,
               "%s: recursive call on `%s` runs with stack depths %s (expected %s: left under +atom, right under -atom, middle under neither)" % (f.name, br, recs.get(br), w),
               f.loc(), sample={"branch": br, "stack_depths": recs.get(br)})
    rep.ob("C06.4", "balanced", ok and depth == {"pos": 0, "neg": 0},
           "%s: pos/neg stacks are not restored at the end of the Node arm (depths %s)" % (f.name, depth), f.loc())


def linear_events(F_, f, body, role, fld):
    """source-ordered events in a block: ('push'|'pop', 'pos'|'neg'|other), ('rec', which sub-diagram); stacks and
    sub-diagrams are identified by binding (parameter position / field of Bdd::Node), not by name"""
    out = []

    def visit(n):
        if isinstance(n, list):
            for x in n:
                visit(x)
            return
        if not isinstance(n, dict):
            return
        if n.get("k") == "MethodCall" and n["method"] in ("push", "pop"):
            recv = [x for x in walk(n["recv"]) if x["k"] == "Path" and x.get("res") == "local"]
            rf = [x for x in walk(n["recv"]) if x["k"] == "Field" and any(z["k"] == "Path" and z.get("name") == "self" for z in walk(x))]
            if rf and ("field", rf[0]["name"]) in role:
                out.append((n["method"], role[("field", rf[0]["name"])]))
            elif rf and any(isinstance(k_, tuple) for k_ in role):
                out.append((n["method"], rf[0]["name"]))
            else:
                out.append((n["method"], role.get(recv[0].get("lid"), recv[0]["name"]) if recv else "?"))
            return
        if (n.get("k") == "Call" and F_._callee_gid(f.crate, n.get("callee") or "") == f.id) or \
                (n.get("k") == "MethodCall" and F_._callee_gid(f.crate, n.get("resolved") or n.get("callee") or "") == f.id):
            arg0 = [fld.get(x.get("lid")) for a_ in n["args"] for x in walk(a_) if x["k"] == "Path" and x.get("res") == "local" and x.get("lid") in fld]
            out.append(("rec", arg0[0] if arg0 else "?"))
            return
        for k, v in n.items():
            if isinstance(v, (dict, list)) and k != "mac":
                visit(v)
    visit(body)
    return out


# ---------------------------------------------------------------------------
# C06.5

def merge_filter_rule(cx, rep, F_, rid):
    """union / intersect / diff walk the two operands' tag-sorted `subtype_data` tables with one merging iterator that
    emits (left entry?, right entry?) per tag and skips the tags the caller masked out.  The mask must be applied to
    the tag of the entry that is emitted: testing the OTHER operand's pending tag keeps or drops an entry according to
    an unrelated tag, so e.g. `("a"|"b") \\ (1|"a")` gains every number.  Decided on every `Iterator::next` of the
    engine whose item is a pair of optional entries: for every `if <test>(.., E) { return Some((..V..)) }` the
    receiver fields (`self.t1`, `self.i2`, ...) that E is computed from - locals resolved through their `let`s - are
    among those the emitted value V is computed from."""
    n = 0
    for g in sorted(F_.hir):
        f = F_.fns.get(g)
        if f is None or "/src/subtyping/" not in (f.file or "") or not g.endswith("::next") or " as std::iter::Iterator>" not in g:
            continue
        tree = F_.hir[g]
        body = tree["body"]
        lets = {}
        for x in walk(body):
            if x["k"] == "LetStmt" and x.get("init") is not None and x["pat"].get("k") == "P.Binding":
                lets.setdefault(x["pat"]["lid"], []).append(x["init"])
        def roots(e, depth=0, seen=None):
            seen = seen if seen is not None else set()
            out = set()
            for y in walk(e):
                if y["k"] == "Field" and (y.get("adt") or "").split("<")[0] and any(z["k"] == "Path" and z.get("name") == "self" for z in walk(y)):
                    # only the outermost receiver field counts (self.t1.subtype_data -> t1)
                    inner = [z for z in walk(y) if z is not y and z["k"] == "Field"]
                    if not inner:
                        out.add(y["name"])
                elif y["k"] == "Path" and y.get("res") == "local" and y.get("lid") in lets and y["lid"] not in seen and depth < 6:
                    seen.add(y["lid"])
                    for init in lets[y["lid"]]:
                        out |= roots(init, depth + 1, seen)
            return out
        for x in walk(body):
            if x["k"] != "If":
                continue
            cond = x.get("cond") or next((v for k_, v in x.items() if isinstance(v, dict) and v.get("ty") == "bool"), None)
            if cond is None:
                continue
            tests = [c for c in walk(cond) if c["k"] in ("MethodCall", "Call") and c.get("ty") == "bool" and (c.get("callee_local") or (c.get("callee") or "").startswith(("subtyping::", "<subtyping::")))]
            if not tests:
                continue
            then = x.get("then") or next((v for k_, v in x.items() if isinstance(v, dict) and v.get("k") == "BlockExpr"), None)
            rets = [r for r in walk(then)] if then else []
            rets = [r for r in rets if r["k"] == "Ret"]
            if not rets:
                continue
            e_roots = set()
            for c in tests:
                for a in c["args"]:
                    if not (a["k"] == "Path" and a.get("name") == "self"):
                        e_roots |= roots(a)
            if not e_roots:
                continue
            for r in rets:
                v_roots = roots(r)
                n += 1
                # compare operand sides: a field name's trailing digit / side marker pairs t1 with i1, t2 with i2
                def side(names):
                    return {re.sub(r"^\D+", "", nm) or nm for nm in names}
                ok = side(e_roots) <= side(v_roots)
                rep.ob(rid, "%s/line-shape-%d" % (short(g), n), ok,
                       "%s: the entry returned here is computed from self.{%s} but the mask test that admits it looks at self.{%s}: the merge keeps or drops an entry of one operand according to the pending tag of the other, so union / intersection / difference of types whose tag sets differ are wrong" % (
                           g, ", ".join(sorted(v_roots)), ", ".join(sorted(e_roots))),
                       "%s:%s" % (f.file, x["line"]), sample={"fn": g, "test_reads": sorted(e_roots), "emitted_reads": sorted(v_roots)})
    rep.floor(rid, "masked emissions of the pairwise merge", n, 3)


# ---------------------------------------------------------------------------------------------------- C06.7
def variant_handling_rule(cx, rep, F_, rid):
    """The per-tag operations return a three-way answer: all of the tag, none of it, or a proper subtype; the operations
    on whole types merge those answers into (bitset of full tags, list of proper subtypes).  Dropping a `none` is
    right - it contributes nothing.  Dropping an `all` loses every value of the tag: if a diagram arm of the per-tag
    intersection can answer `all` (a diagram that collapsed to the True leaf) while the whole-type intersection keeps
    proper answers only, `X & Y` loses all objects for tautological X, Y.  Decided per operation: the answer variants
    the DIAGRAM arms of ProperSubtypeOps::<op> can construct (directly or through constructor helpers that return the
    answer type), except `none`, are matched by a pattern in SemTypeOps::<op>.  (The literal-list arms go through
    constructors that can also answer `all`, but not from proper operands; they are the business of C06.2.)"""
    rep.rule(rid, "the whole-type operations handle every answer the per-tag diagram operations can give")
    padt = next((a for k, a in F_.adts.items() if k.endswith("::ProperSubtype")), None)
    if padt is None:
        rep.anchor_missing(rid, "ProperSubtype")
        return
    diagram = {v["name"] for v in padt["variants"] if len(v["fields"]) == 1 and "Bdd" in v["fields"][0]["ty"]}
    n = 0

    def ctor_variants(e, crate, depth=0, seen=None):
        seen = seen if seen is not None else set()
        out = set()
        for x in walk(e):
            if x["k"] == "Call":
                cal = x.get("callee") or ""
                m = re.search(r"SubType::(True|False|Proper)$", cal)
                if m:
                    out.add(m.group(1))
                    continue
                tg = F_._callee_gid(crate, cal)
                hf = F_.fns.get(tg)
                if tg in F_.hir and tg not in seen and depth < 4 and hf is not None and "SubType" in (hf.output or "") and "ProperSubtype" not in (hf.output or "").replace("Rc<", ""):
                    seen.add(tg)
                    out |= ctor_variants(F_.hir[tg]["body"], crate, depth + 1, seen)
            elif x["k"] == "MethodCall":
                tg = F_._callee_gid(crate, x.get("resolved") or x.get("callee") or "")
                hf = F_.fns.get(tg)
                if tg in F_.hir and tg not in seen and depth < 4 and hf is not None and re.search(r"(^|[<: ])SubType\b", hf.output or ""):
                    seen.add(tg)
                    out |= ctor_variants(F_.hir[tg]["body"], crate, depth + 1, seen)
        return out

    def answer_patterns(g, crate, depth=0, seen=None):
        """answer variants matched by a pattern in g - or in a local function g hands an answer to (a parameter of the
        answer type): benign b91 moved the `match` over the per-tag result of union and diff into the shared helper
        `record_combined_subtype(&SubType, &mut all, &mut subtypes)`.  Functions that do not take an answer are not
        entered, so an operation that keeps `Proper` only is not excused by a pattern somewhere below it."""
        seen = seen if seen is not None else {g}
        body = F_.hir[g]["body"]
        out = {(p_.get("def") or "").rsplit("::", 1)[-1] for p_ in walk(body) if p_["k"] in ("P.TupleStruct", "P.Struct") and re.search(r"SubType::(True|False|Proper)$", p_.get("def") or "")}
        for x in walk(body):
            if x["k"] not in ("Call", "MethodCall") or depth >= 2:
                continue
            tg = F_._callee_gid(crate, (x.get("callee") if x["k"] == "Call" else (x.get("resolved") or x.get("callee"))) or "")
            hf = F_.fns.get(tg)
            if tg in F_.hir and tg not in seen and hf is not None and any(re.search(r"(^|[<: &])SubType\b", t_ or "") for t_ in (hf.inputs or [])):
                seen.add(tg)
                out |= answer_patterns(tg, crate, depth + 1, seen)
        return out
    for op in ("intersect", "union", "diff"):
        prod = next((g for g in F_.hir if g.endswith("ProperSubtypeOps>::%s" % op)), None)
        cons = next((g for g in F_.hir if g.endswith("SemTypeOps>::%s" % op)), None)
        if prod is None or cons is None:
            rep.anchor_missing(rid, "ProperSubtypeOps / SemTypeOps ::%s" % op)
            continue
        produced = set()
        crate = F_.fns[prod].crate
        for m in walk(F_.hir[prod]["body"]):
            if m["k"] != "Match":
                continue
            for a in m["arms"]:
                vs = {(p_.get("def") or "").rsplit("::", 1)[-1] for p_ in walk(a["pat"]) if p_["k"] in ("P.TupleStruct", "P.Struct") and "ProperSubtype::" in (p_.get("def") or "")}
                if vs & diagram:
                    produced |= ctor_variants(a["body"], crate)
        handled = answer_patterns(cons, crate)
        n += 1
        lost = sorted(produced - {"False"} - handled)
        rep.ob(rid, "%s/handles-every-answer" % op, not lost,
               "the diagram arms of ProperSubtypeOps::%s can answer %s, which SemTypeOps::%s has no pattern for (it matches %s): such an answer is dropped, and with it every value of the tag - e.g. the intersection of two tautological unions of object types contains no object" % (
                   op, lost, op, sorted(handled)),
               F_.fns[cons].loc(), sample={"op": op, "diagram_arms_can_answer": sorted(produced), "whole_type_op_matches": sorted(handled)})
    rep.floor(rid, "operations compared", n, 3)


# ---------------------------------------------------------------------------------------------------- C06.6
def clause_simplification_rule(cx, rep, F, rid):
    """A disjunctive normal form may be simplified without changing the set it denotes only in two ways: a clause that
    contains an atom both positively and negatively is dropped, and a clause is dropped when ANOTHER clause subsumes
    it - `a` subsumes `b` iff a.positive is a subset of b.positive AND a.negative is a subset of b.negative (a clause
    with fewer literals of either polarity denotes a larger set; both polarities run the SAME way).  Decided over the
    engine's files: (1) every bool-valued function of two clauses (`&Conjunction`) compares `positive` with
    `positive` and `negative` with `negative`, and the operand that comes from the first clause is on the same side
    in both comparisons; (2) `retain` / `filter` over a list of clauses with a predicate of ONE clause reads both its
    `positive` and its `negative` field (the contradiction test) - anything else throws away part of the union."""
    from facts import walk as hwalk
    rep.rule(rid, "a DNF is only simplified by polarity-consistent subsumption (and by dropping contradictory clauses)")
    n_bin = n_un = 0
    def is_clause(t):
        return (t or "").replace("&", "").replace("mut ", "").strip().endswith("dnf::Conjunction")
    for g, tree in sorted(F.hir.items()):
        f = F.fns.get(g)
        if f is None or not (f.file or "").startswith("packages/beff-core/src/subtyping"):
            continue
        ins = f.inputs or []
        if f.kind == "Closure":
            # closure parameter types: taken from the pattern types
            ins = [p.get("ty") for p in tree["params"]]
        cl = [i for i, t in enumerate(ins) if is_clause(t) or is_clause((t or "").replace("std::rc::Rc<", "").rstrip(">"))]
        out_bool = (f.output == "bool") or f.kind == "Closure"
        if not out_bool or not cl:
            continue
        plid = {}
        for i in cl:
            p = tree["params"][i] if i < len(tree["params"]) else None
            if p is not None:
                for q in hwalk(p):
                    if q["k"] == "P.Binding":
                        plid[q.get("lid")] = i
        def field_of(e):
            """(param index, field) if e is `<clause param>.positive|negative` (through & and derefs)"""
            while isinstance(e, dict) and e.get("k") in ("AddrOf", "Deref", "DropTemps", "Unary", "MethodCall") and (e.get("k") != "MethodCall" or e.get("method") in ("iter", "as_slice", "clone", "as_ref", "deref", "len")):
                e = e.get("e") if e.get("k") != "MethodCall" else e["recv"]
            if isinstance(e, dict) and e.get("k") == "Field" and e.get("name") in ("positive", "negative"):
                b = e["e"]
                while isinstance(b, dict) and b.get("k") in ("AddrOf", "Deref", "DropTemps", "Unary"):
                    b = b["e"]
                if isinstance(b, dict) and b.get("k") == "Path" and b.get("lid") in plid:
                    return plid[b["lid"]], e["name"]
            return None
        if len(cl) >= 2:
            comps = []
            for n in hwalk(tree["body"]):
                ops = None
                if n["k"] == "Call" and len(n.get("args") or []) >= 2:
                    ops = [field_of(a) for a in n["args"][:2]]
                elif n["k"] == "MethodCall" and n.get("args"):
                    ops = [field_of(n["recv"]), field_of(n["args"][0])]
                    if ops[0] is None and n["k"] == "MethodCall" and n.get("method") in ("all", "any"):
                        # xs.iter().all(|x| ys.contains(x))
                        inner = [m for m in hwalk(n["args"][0]) if m["k"] == "MethodCall" and m.get("method") == "contains"]
                        if inner:
                            ops = [field_of(n["recv"]), field_of(inner[0]["recv"])]
                elif n["k"] == "Binary" and n.get("op") in ("Eq", "Ne", "Le", "Lt", "Ge", "Gt"):
                    ops = [field_of(n["l"]), field_of(n["r"])]
                if ops and ops[0] and ops[1] and ops[0][0] != ops[1][0]:
                    comps.append((ops[0], ops[1], n.get("line")))
            if not comps:
                continue
            n_bin += 1
            cross = [c for c in comps if c[0][1] != c[1][1]]
            order = {}
            for a_, b_, _l in comps:
                if a_[1] == b_[1]:
                    order.setdefault(a_[1], set()).add(a_[0])
            consistent = not cross and all(len(v) == 1 for v in order.values()) and len({tuple(sorted(v)) for v in order.values()}) <= 1
            rep.ob(rid, "%s/polarity-consistent" % g.rsplit("::", 1)[-1], consistent,
                   "%s relates two clauses but compares their literal sets in different directions for the two polarities (%s): a clause subsumes another iff BOTH its positive and its negative atoms are subsets of the other's - with the negatives reversed, `(A and not C) or (A and B)` loses the clause `A and B`, i.e. values of the union" % (
                       g, "; ".join("%s.%s vs %s.%s" % ("ab"[min(a_[0], 1) if a_[0] == cl[0] else 1], a_[1], "ab"[0 if b_[0] == cl[0] else 1], b_[1]) for a_, b_, _ in comps)),
                   f.loc(), sample={"fn": g, "comparisons": len(comps)})
        else:
            # unary predicates used to drop clauses
            used = False
            for h, t2 in F.hir.items():
                for n in hwalk(t2["body"]):
                    if n["k"] == "MethodCall" and n.get("method") in ("retain", "filter", "retain_mut", "extract_if", "skip_while", "take_while") and n.get("args"):
                        a0 = n["args"][0]
                        if (a0.get("k") == "Closure" and a0.get("def") == g) or (a0.get("k") == "Path" and (a0.get("def") or "") == g):
                            used = True
            if not used:
                continue
            n_un += 1
            fields = {fo[1] for n in hwalk(tree["body"]) if n["k"] == "Field" for fo in [field_of(n)] if fo}
            rep.ob(rid, "%s/unary-drop-is-contradiction-test" % g.rsplit("::", 1)[-1], fields == {"positive", "negative"},
                   "%s drops clauses of a disjunction by a predicate over one clause that reads %s: the only clause that denotes nothing by itself is one with an atom in both polarities" % (g, sorted(fields) or "neither literal set"),
                   f.loc(), sample={"fn": g})
    rep.ob(rid, "scan", True, sample={"two_clause_predicates": n_bin, "one_clause_drop_predicates": n_un})
