"""Rules added after the seventeenth seed batch (registered per property through r15.run_extra).

C07.17 = C11.10  raw intersections: `RuntypeKind::AllOf` is constructed by the merging smart constructor only
C07.18           the union accumulator drops a member only by a payload-precise test
C12.14           a reporter never takes a nested union error apart
C15.19           `Array<T>` lowers to an array node for every T (the tuple-rest test and describe() rely on it)
"""
import re
from facts import walk
import tsast
from tsast import walk as twalk, s as ts_s, unparen

CRATE = "beff_core"


def _fn_trees(F, file_suffix=None):
    for g in sorted(F.hir):
        f = F.fns.get(g)
        if f is None or f.crate != CRATE:
            continue
        if file_suffix and not (f.file or "").endswith(file_suffix):
            continue
        yield g, f, F.hir[g]


def _ctor_calls(tree, suffix):
    return [x for x in walk(tree["body"]) if x["k"] == "Call" and (x.get("callee") or "").endswith(suffix)]


# ---------------------------------------------------------------------------------------------------- C07.17 = C11.10
def raw_intersection_rule(cx, rep, rid):
    """The runtime judges an intersection member by member, and in strict mode each closed object member rejects the
    keys of the others (recorded finding C11.3): an intersection of object types is usable in strict mode only because
    the compiler MERGES object members into one object before it emits them - in `Runtype::all_of`, the one function
    that builds an object out of the members' properties.  Decided (who-may-construct): every construction of
    `RuntypeKind::AllOf(..)` lies in that merging constructor, or is consumed on the spot by the semantic engine
    (`Runtype::new(AllOf(..)).to_sem_type(..)`, never returned).  A second place that wraps members into a raw AllOf
    hands the printer closed objects side by side (seed C11-q: the post-pass of Exclude rebuilt the intersection by
    hand; `Exclude<(A & B) | C, C>` then rejects `{a, b}` under disallowExtraProperties)."""
    F = cx.rs
    sites = []
    mergers = set()
    for g, f, t in _fn_trees(F):
        cs = _ctor_calls(t, "RuntypeKind::AllOf")
        if not cs or (f.impl_trait or "").startswith(("std::", "core::", "serde::")):
            continue        # (derived Clone / Deserialize rebuild the variant they were given)
        # the merging constructor, by role: builds AllOf AND an Object out of collected members, takes the member list
        builds_object = any(x["k"] in ("Call", "MethodCall") and re.search(r"Runtype::object$|RuntypeKind::Object$", (x.get("resolved") or x.get("callee") or "")) for x in walk(t["body"])) \
            or any(x["k"] == "Struct" and (x.get("def") or "").endswith("RuntypeKind::Object") for x in walk(t["body"]))
        if builds_object and any("Vec<ast::runtype::Runtype>" in (i or "") for i in (f.inputs or [])):
            mergers.add(g)
        for c in cs:
            sites.append((g, f, t, c))
    rep.floor(rid, "merging constructors of intersections (build AllOf and the merged Object)", len(mergers), 1)
    rep.floor(rid, "constructions of RuntypeKind::AllOf", len(sites), 2)
    for g, f, t, c in sites:
        if g in mergers:
            rep.ob(rid, "%s/in-merger" % f.name, True, sample={"fn": g})
            continue
        # consumed by the engine: the construction is (inside) the receiver of a to_sem_type call
        consumed = False
        for x in walk(t["body"]):
            if x["k"] == "MethodCall" and x.get("method") == "to_sem_type" and any(y is c for y in walk(x["recv"])):
                consumed = True
        rep.ob(rid, "%s/raw-intersection" % f.name, consumed,
               "%s constructs a raw RuntypeKind::AllOf that is not handed to the semantic engine on the spot: object members are only merged into ONE object by the smart constructor, and the runtime judges a raw intersection member by member - in strict mode each closed object member rejects the keys of the others, so every value with keys of both members is rejected" % g,
               "%s:%s" % (f.file, c["line"]), sample={"fn": g})


# ---------------------------------------------------------------------------------------------------- C07.18
def union_absorption_rule(cx, rep, rid):
    """`Runtype::any_of` is how every simplified / materialised union is rebuilt.  Its accumulator may drop `never`,
    flatten nested unions and deduplicate; any further ABSORPTION (a member dropped because another member covers it)
    has to say precisely which members it means.  Decided for the IR module: a predicate that selects members of a set
    of Runtypes for removal (`retain` / `filter` / `remove` on a collection of Runtype) contains no pattern that names a
    variant of RuntypeKind and leaves a payload that is itself a multi-variant enum unconstrained (`Const(_)` stands
    for numbers AND strings AND booleans AND null) - seed C07-q dropped `true` next to `number`."""
    F = cx.rs
    enum_multi = {k for k, a in F.adts.items() if a.get("kind") == "Enum" and len(a["variants"]) >= 2}
    kind = next((a for k, a in F.adts.items() if k.endswith("ast::runtype::RuntypeKind") or k == "ast::runtype::RuntypeKind"), None)
    if kind is None:
        rep.anchor_missing(rid, "RuntypeKind")
        return
    loose = {}   # variant name -> payload enum
    for v in kind["variants"]:
        for fl in v["fields"]:
            ty = (fl["ty"] or "").replace("&", "").strip()
            if ty in enum_multi:
                loose[v["name"]] = ty
    rep.floor(rid, "RuntypeKind variants whose payload is a multi-variant enum", len(loose), 1)
    n = 0
    for g, f, t in _fn_trees(F, "ast/runtype.rs"):
        for x in walk(t["body"]):
            if x["k"] != "MethodCall" or x.get("method") not in ("retain", "filter", "filter_map", "remove", "extract_if", "skip_while", "take_while", "partition"):
                continue
            rty = x.get("recv_ty") or ""
            if "Runtype" not in rty and not any("Runtype" in (y.get("ty") or "") for y in walk(x["recv"]) if isinstance(y, dict)):
                continue
            n += 1
            bad = []
            for a in x.get("args") or []:
                for p in walk(a):
                    if p["k"] == "P.TupleStruct" and (p.get("def") or "").rsplit("::", 1)[-1] in loose and "RuntypeKind" in (p.get("def") or ""):
                        subs = list(p.get("pats", [])) + [fl["pat"] for fl in p.get("fields", [])]
                        if any(sp["k"] == "P.Wild" or (sp["k"] == "P.Binding" and sp.get("sub") is None) for sp in subs):
                            bad.append(p)
            rep.ob(rid, "%s/%s#%d" % (f.name, x["method"], n), not bad,
                   "%s selects members of a union / intersection with the pattern %s(_): the payload (%s) is left open, so the selection takes in every kind of literal - a simplification that means numeric literals also removes `true`, `\"a\"` and `null` from the materialised type" % (
                       g, (bad[0].get("def") or "?").rsplit("::", 1)[-1] if bad else "?", loose.get((bad[0].get("def") or "").rsplit("::", 1)[-1]) if bad else "?"),
                   "%s:%s" % (f.file, x["line"]), sample={"fn": g, "method": x["method"]})
    rep.floor(rid, "member selections over collections of Runtype in the IR module", n, 1)


# ---------------------------------------------------------------------------------------------------- C12.14
def union_error_intact_rule(cx, rep, rid):
    """The branch errors inside a union error carry paths RELATIVE to the union's own position (the union reporter
    resets ctx.path for its branches and prepends its own path when it wraps them).  Taking a nested union error apart
    and handing its branch errors to another parent re-bases them: they then address another position, with the
    `received` of the old one (seed C12-q).  Decided on the runtime module: the `errors` member of an error value (a
    variable tested with `"isUnionError" in v`) is read only as the direct argument of a function that returns a
    number (the depth measure); rendering lives in err.ts."""
    from rules.ts_common import Family
    fam = Family(cx)
    mod = fam.mod
    fns = {}
    for name, fn in mod.functions.items():
        fns[name] = fn.get("function", fn)
    number_fns = set()
    for name, fn in mod.functions.items():
        f_ = fn.get("function", fn)
        rt = f_.get("returnType") or {}
        if tsast.type_str(rt.get("typeAnnotation") or rt) == "number":
            number_fns.add(name)
    n = 0
    bodies = [(name, f_) for name, f_ in fns.items()]
    for cname, c in sorted(fam.classes.items()):
        for mname, m in c.methods.items():
            if m.get("function") is not None:
                bodies.append(("%s.%s" % (cname, mname), m["function"]))
    for name, fn in bodies:
        tested = set()
        for x in twalk(fn):
            if x["type"] == "BinaryExpression" and x["operator"] == "in" and unparen(x["left"]).get("type") == "StringLiteral" and unparen(x["left"])["value"] == "isUnionError":
                tested.add(ts_s(x["right"]))
        if not tested:
            continue
        reads = [x for x in twalk(fn) if x["type"] == "MemberExpression" and x["property"].get("value") == "errors" and ts_s(x["object"]) in tested]
        ok_reads = set()
        for x in twalk(fn):
            if x["type"] == "CallExpression" and ts_s(x["callee"]) in number_fns:
                for a in x["arguments"]:
                    e = unparen(a["expression"])
                    if e in reads or any(e is r_ for r_ in reads):
                        ok_reads.add(id(e))
        for r_ in reads:
            n += 1
            rep.ob(rid, "%s/%s.errors" % (name, ts_s(r_["object"])), id(r_) in ok_reads,
                   "%s reads the branch errors of a nested union error (`%s.errors`) for something other than measuring them: those errors carry paths relative to the nested union's position, so handing them to another parent makes them address a different place of the input with the old `received`" % (name, ts_s(r_["object"])),
                   mod.loc(r_), sample={"fn": name})
    rep.floor(rid, "reads of the branch errors of a union error in the runtime module", n, 1)


# ---------------------------------------------------------------------------------------------------- C15.19
def array_spelling_rule(cx, rep, rid):
    """describe() prints the rest element of a tuple as `...Array<T>` and the compiler accepts a rest element only when
    its lowered type is an array node; so `Array<T>` has to lower to an array node for EVERY T - `unknown` included,
    which describe() prints as `any`.  Decided across the languages: (a) the tuple printer of the runtime spells the rest
    with `Array<`; (b) the tuple lowering tests the rest for `RuntypeKind::Array`; then (c) every value the arm of the
    `Array` builtin returns for one type argument is built by the array constructor (no other constructor of the IR
    is called in that arm).  Seed C15-q lowered `Array<any>` to the array TOP type: `[string, ...unknown[]]` described
    itself as `[string, ...Array<any>]`, which no longer compiled."""
    from rules.ts_common import Family
    F = cx.rs
    fam = Family(cx)
    mod = fam.mod
    # (a) the runtime spells a rest element with the generic name
    tup = [c for n_, c in fam.classes.items() if "Tuple" in n_]
    spells = False
    for c in tup:
        for mname, m in c.methods.items():
            if "escribe" in mname and m.get("function") is not None:
                for x in twalk(m["function"]):
                    if x["type"] == "TemplateElement" and "...Array<" in (x.get("raw") or x.get("cooked") or ""):
                        spells = True
                    if x["type"] == "StringLiteral" and "...Array<" in x["value"]:
                        spells = True
    rep.ob(rid, "runtime/rest-spelled-Array<", bool(tup), "no tuple class found in the runtime", None)
    if not spells:
        rep.ob(rid, "runtime/rest-spelling", True, sample={"note": "the tuple printer does not spell the rest element `...Array<T>`: nothing to agree on"})
        return
    # (b) sites that demand an array node of a lowered type
    demands = 0
    for g, f, t in _fn_trees(F):
        if not (f.file or "").startswith("packages/beff-core/src/frontend"):
            continue
        for x in walk(t["body"]):
            if x["k"] in ("Path", "Call", "Struct") and (x.get("def") or x.get("callee") or "").endswith("TupleRestTypeMustBeArray"):
                demands += 1
    rep.floor(rid, "sites that reject a tuple rest that is not an array node", demands, 1)
    # (c) the arm of the Array builtin
    arms = []
    for g, f, t in _fn_trees(F):
        if not (f.file or "").startswith("packages/beff-core/src/frontend"):
            continue
        for x in walk(t["body"]):
            if x["k"] == "Match":
                for a in x["arms"]:
                    ds = [(p.get("def") or "") for p in walk(a["pat"])]
                    if any(d.endswith("TsBuiltIn::Array") for d in ds) and not any(d.endswith("TsBuiltIn::ReadonlyArray") is False and d.endswith("TsBuiltIn::Record") for d in ds):
                        arms.append((g, f, a))
    rep.floor(rid, "arms selected by the Array builtin", len(arms), 1)
    IR_CTOR = re.compile(r"ast::runtype::Runtype::(\w+)$")
    for g, f, a in arms:
        other = []
        arr = 0
        for x in walk(a["body"]):
            if x["k"] in ("Call", "MethodCall"):
                m_ = IR_CTOR.search(x.get("resolved") or x.get("callee") or "")
                if not m_:
                    continue
                fn_ = F.fns.get(F._callee_gid(CRATE, x.get("resolved") or x.get("callee")))
                if fn_ is None or not (fn_.output or "").endswith("Runtype"):
                    continue
                # constructors only: associated functions without a self receiver (`clone`, `into` .. are methods)
                if (fn_.inputs or []) and (fn_.inputs[0] or "").lstrip("&").strip().endswith("ast::runtype::Runtype") and m_.group(1) not in ("array",):
                    continue
                if m_.group(1) == "array":
                    arr += 1
                else:
                    other.append((x, m_.group(1)))
        rep.ob(rid, "%s/Array-arm" % f.name, arr >= 1 and not other,
               "the arm of %s for the `Array` builtin builds its result with %s: the runtime describes the rest element of a tuple as `...Array<T>` (and `unknown` as `any`), and the tuple lowering accepts a rest only when it lowered to an array node - a description such as `[string, ...Array<any>]` then fails to compile" % (
                   g, ", ".join("Runtype::%s" % o[1] for o in other) or "no array constructor"),
               "%s:%s" % (f.file, (other[0][0]["line"] if other else a["line"])), sample={"fn": g, "array_ctor_calls": arr})


# ---------------------------------------------------------------------------------------------------- C04.14
def comparator_rule(cx, rep, rid):
    """The standard sorts PANIC ("user-provided comparison function does not correctly implement a total order") when a
    comparator is inconsistent and the slice is long enough (> 20 elements) - a panic on valid input that no small
    example shows.  A comparator is a total order by construction when it is a composition of key comparisons:
    `key(a).cmp(&key(b))`, chained with `then` / `then_with` / `reverse`.  One that CHOOSES the comparison by a test
    on the pair (`match (num(a), num(b)) { (Some(x), Some(y)) => x.cmp(&y), _ => a.cmp(b) }`: 9 < 10 by value,
    10 < 10.5 by text, 10.5 < 9 by text - seed C04-q) has no such guarantee.  Decided: the comparators handed to
    sort_by / sort_unstable_by / binary_search_by / max_by / min_by (closures, and the functions of the compiler they
    call that return an Ordering) contain no `if` / `match`."""
    F = cx.rs
    SORTS = ("sort_by", "sort_unstable_by", "binary_search_by", "max_by", "min_by", "is_sorted_by", "dedup_by")
    n = 0
    for g, f, t in _fn_trees(F):
        for x in walk(t["body"]):
            if x["k"] != "MethodCall" or x.get("method") not in SORTS or not x.get("args"):
                continue
            cal = x.get("resolved") or x.get("callee") or ""
            if not cal.startswith(("std::", "core::", "alloc::")):
                continue
            n += 1
            bodies = []
            a0 = x["args"][0]
            if a0["k"] == "Closure":
                bodies.append(a0["body"])
            elif a0["k"] == "Path" and a0.get("def"):
                g2 = F._callee_gid(CRATE, a0["def"])
                if g2 in F.hir:
                    bodies.append(F.hir[g2]["body"])
            seen = set()
            for _ in range(2):
                for b in list(bodies):
                    for y in walk(b):
                        if y["k"] in ("Call", "MethodCall"):
                            g2 = F._callee_gid(CRATE, y.get("resolved") or y.get("callee") or "")
                            fn2 = F.fns.get(g2)
                            if fn2 is not None and g2 in F.hir and g2 not in seen and (fn2.output or "").endswith("cmp::Ordering") and not (fn2.impl_trait or "").startswith(("std::", "core::")):
                                seen.add(g2)
                                bodies.append(F.hir[g2]["body"])
            branch = [y for b in bodies for y in walk(b) if y["k"] == "If" or (y["k"] == "Match" and y.get("src") == "Normal")]
            rep.ob(rid, "%s/%s#%d" % (f.name, x["method"], n), not branch,
                   "the comparator handed to %s in %s chooses how to compare by a test on the pair (line %s) instead of comparing one key: nothing makes it a total order, and the standard sort panics on an inconsistent comparator once the slice has more than 20 elements (a union of > 20 literals)" % (
                       x["method"], g, branch[0]["line"] if branch else "?"),
                   "%s:%s" % (f.file, x["line"]), sample={"fn": g, "sort": x["method"], "helper_fns": sorted(seen)})
    rep.floor(rid, "comparators handed to the standard sorts", n, 3)


# ---------------------------------------------------------------------------------------------------- C13.14
def fill_level_rule(cx, rep, rid):
    """SHA-256 padding: the finaliser writes the 0x80 byte at `buffer[fill]`, which presumes fill <= 63 - a FULL block
    buffer must have been compressed by whoever filled it.  Decided on the digest writer: every method other than the
    finaliser that raises the fill level (`+=`, `++` on the field the finaliser indexes the buffer with) is followed, in
    the same statement list, by the flush `if (fill === 64) { compress; fill = 0 }`.  A method that flushes BEFORE it
    writes (seed C13-q) can return with fill = 64; the finaliser's `buffer[64] = 0x80` is then dropped silently and the
    digest of every encoding whose length is a multiple of 64 and ends in a single byte is not SHA-256."""
    mod = cx.ts("packages/beff-client/src/hash.ts")
    n = 0
    for cname, c in sorted(mod.classes.items()):
        # the finaliser: the method that stores 0x80 at buffer[this.<fill>++]
        fill = None
        fin = None
        for mname, m in c.methods.items():
            fn = m.get("function")
            if fn is None:
                continue
            for x in twalk(fn):
                if x["type"] == "AssignmentExpression" and unparen(x["right"]).get("type") == "NumericLiteral" and unparen(x["right"])["value"] == 128:
                    l = x["left"]
                    if l.get("type") == "MemberExpression" and l["property"].get("type") == "Computed":
                        for y in twalk(l["property"]):
                            if y["type"] == "MemberExpression" and y["object"].get("type") == "ThisExpression":
                                fill, fin = y["property"].get("value"), mname
        if fill is None:
            continue

        def raises(st):
            for y in twalk(st):
                if y["type"] == "UpdateExpression" and y["operator"] == "++" and ts_s(y["argument"]) == "this." + fill:
                    return True
                if y["type"] == "AssignmentExpression" and y["operator"] in ("+=",) and ts_s(y["left"]) == "this." + fill:
                    return True
            return False

        def resets(node, depth=1):
            for y in twalk(node):
                if y["type"] == "AssignmentExpression" and y["operator"] == "=" and ts_s(y["left"]) == "this." + fill and ts_s(y["right"]) == "0":
                    return True
                # the flush may live in a private method of its own (`this.flushBuffer()`, benign b114)
                if depth > 0 and y["type"] == "CallExpression" and ts_s(y["callee"]).startswith("this."):
                    h = c.methods.get(ts_s(y["callee"])[5:])
                    if h is not None and h.get("function") is not None and resets(h["function"], depth - 1):
                        return True
            return False

        def is_block_size(e):
            e = unparen(e)
            if e.get("type") == "NumericLiteral":
                return e["value"] == 64
            if e.get("type") == "Identifier" and e["value"] in mod.vars:
                init = mod.vars[e["value"]][1]
                return init is not None and unparen(init).get("type") == "NumericLiteral" and unparen(init)["value"] == 64
            return False

        def is_flush(st):
            if st["type"] != "IfStatement":
                return False
            t = unparen(st["test"])
            if t.get("type") != "BinaryExpression" or t["operator"] not in ("===", "==", ">="):
                return False
            sides = [t["left"], t["right"]]
            if not (any(ts_s(x_) == "this." + fill for x_ in sides) and any(is_block_size(x_) for x_ in sides)):
                return False
            return resets(st["consequent"])

        for mname, m in sorted(c.methods.items()):
            fn = m.get("function")
            if fn is None or mname == fin or fn.get("body") is None:
                continue
            blocks = [b for b in twalk(fn) if b["type"] == "BlockStatement"]
            for b in blocks:
                sts = b.get("stmts") or []
                for i, st in enumerate(sts):
                    if st["type"] in ("IfStatement", "WhileStatement", "ForStatement", "ForOfStatement", "BlockStatement"):
                        continue       # judged in its own block
                    if raises(st):
                        n += 1
                        ok = any(is_flush(z) for z in sts[i + 1:])
                        rep.ob(rid, "%s.%s/flush-after-fill" % (cname, mname), ok,
                               "%s.%s raises the fill level of the block buffer (`this.%s`) and does not compress a full block afterwards in the same statement list: it can return with %s = 64, and the finaliser (%s) then stores the 0x80 padding byte at buffer[64] - outside the block, silently dropped - so the digest of an encoding whose length is a multiple of 64 is not SHA-256 of it" % (cname, mname, fill, fill, fin),
                               mod.loc(st), sample={"class": cname, "method": mname, "fill_field": fill})
    rep.floor(rid, "statements that raise the fill level of the digest writer's block buffer", n, 1)


# ---------------------------------------------------------------------------------------------------- C03.24
def same_input_merge_rule(cx, rep, rid):
    """A class that asks SEVERAL child validators to parse the SAME input (a union's matching branches, the members of
    an intersection) gets several projections of one value; the parsed result is their union at every depth - the deep
    merge the module keeps for that purpose.  A shallow combination (`{...acc, ...parsed}`, Object.assign) keeps, for a
    key both projections carry, only the LAST member's part: `{a: {x: string}} & {a: {y: number}}` parsed
    `{a: {x, y}}` to `{a: {y}}`, which the same validator rejects.  Decided: in every parseAfterValidation method, a
    value obtained from `<child>.parseAfterValidation(ctx, <the method's own input>)` is never the argument of an
    object spread or of Object.assign; where such calls sit in a loop (or occur twice) the method calls the deep merge."""
    from rules.ts_common import Family, fn_params
    fam = Family(cx)
    mod = fam.mod
    n = 0
    for cname, c in sorted(fam.classes.items()):
        m = c.methods.get("parseAfterValidation")
        if not m or m.get("function") is None or m["function"].get("body") is None:
            continue
        fn = m["function"]
        ps = fn_params(fn)
        if len(ps) < 2:
            continue
        inp = ps[1]
        calls = [x for x in twalk(fn) if x["type"] == "CallExpression" and ts_s(x["callee"]).endswith(".parseAfterValidation")
                 and len(x["arguments"]) >= 2 and ts_s(x["arguments"][1]["expression"]) == inp]
        if not calls:
            continue
        in_loop = False
        for lp in twalk(fn):
            if lp["type"] in ("ForOfStatement", "ForInStatement", "ForStatement", "WhileStatement") and any(any(y is c_ for y in twalk(lp)) for c_ in calls):
                in_loop = True
        # (the loop may be a callback handed to an array method of the class's own list: `this.schemas.map((it) =>
        # it.parseAfterValidation(ctx, input))`, benign b37)
        for cb in twalk(fn):
            if cb["type"] == "CallExpression" and re.search(r"\.(map|forEach|flatMap|reduce|filter)$", ts_s(cb["callee"]) or ""):
                for a_ in cb["arguments"]:
                    if unparen(a_["expression"]).get("type") in ("ArrowFunctionExpression", "FunctionExpression") and any(any(y is c_ for y in twalk(a_["expression"])) for c_ in calls):
                        in_loop = True
        if not in_loop and len(calls) < 2:
            continue        # one child, one projection: nothing to combine
        n += 1
        results = set()
        for d in twalk(fn):
            if d["type"] == "VariableDeclarator" and d.get("init") is not None and any(d["init"] is c_ or unparen(d["init"]) is c_ for c_ in calls) and d["id"].get("type") == "Identifier":
                results.add(d["id"]["value"])
        shallow = []
        for x in twalk(fn):
            if x["type"] == "ObjectExpression":
                for pr in x.get("properties", []):
                    if pr.get("type") == "SpreadElement":
                        a = unparen(pr["arguments"]) if "arguments" in pr else unparen(pr.get("argument", {}))
                        if (a.get("type") == "Identifier" and a["value"] in results) or any(a is c_ for c_ in calls):
                            shallow.append(x)
            if x["type"] == "CallExpression" and ts_s(x["callee"]) == "Object.assign" and any(
                    (unparen(a_["expression"]).get("type") == "Identifier" and unparen(a_["expression"])["value"] in results) or any(unparen(a_["expression"]) is c_ for c_ in calls) for a_ in x["arguments"]):
                shallow.append(x)
        deep = any(x["type"] == "CallExpression" and ts_s(x["callee"]) == "deepmerge" for x in twalk(fn))
        rep.ob(rid, "%s.parseAfterValidation/deep-merge" % cname, not shallow and deep,
               "%s.parseAfterValidation asks several child validators to parse the same input and combines their results %s: for a key two results carry only the last one's part survives - `{a: {x: string}} & {a: {y: number}}` parses `{a: {x, y}}` to `{a: {y}}`, which the same validator rejects" % (
                   cname, "with an object spread / Object.assign (shallow)" if shallow else "without the module's deep merge"),
               mod.loc(shallow[0]) if shallow else mod.loc(fn), sample={"class": cname, "same_input_calls": len(calls)})
    rep.floor(rid, "classes that parse one input with several child validators", n, 2)


# ---------------------------------------------------------------------------------------------------- C12.15
def received_is_not_the_label_rule(cx, rep, rid):
    """`received` is the value found at the reported path.  A reporter that pushes the path segment K (a plain property
    name or index: the position of `input[K]`) and then hands K ITSELF to a child reporter / buildError reports the
    label as the received value.  (Map / Set reporters push made-up labels - `key(..)`, `value(..)` - which name the
    key as a position of its own; those are template strings, not the bare key.)  Decided: between `pushPath(ctx, K)`
    and the matching `popPath(ctx)` in one statement list, with K a bare identifier, no `<x>.reportDecodeError(ctx, K)`
    / `buildError(ctx, .., K)` receives K."""
    from rules.ts_common import Family
    fam = Family(cx)
    mod = fam.mod
    n = 0
    for cname, c in sorted(fam.classes.items()):
      # (every method: the reports of one class may live in private helpers of it - benign b68 - so the obligation is
      # keyed by the class and the reporter that is called, not by the method)
      for mname, m in sorted(c.methods.items()):
        if not m or m.get("function") is None or m["function"].get("body") is None:
            continue
        for b in twalk(m["function"]):
            if b["type"] != "BlockStatement":
                continue
            sts = b.get("stmts") or []
            label = None
            for st in sts:
                e = unparen(st.get("expression", {})) if st["type"] == "ExpressionStatement" else {}
                if e.get("type") == "CallExpression" and ts_s(e["callee"]) == "pushPath" and len(e["arguments"]) >= 2:
                    a = unparen(e["arguments"][1]["expression"])
                    label = a["value"] if a.get("type") == "Identifier" else None
                    continue
                if e.get("type") == "CallExpression" and ts_s(e["callee"]) == "popPath":
                    label = None
                    continue
                if label is None:
                    continue
                for x in twalk(st):
                    if x["type"] != "CallExpression":
                        continue
                    cal = ts_s(x["callee"])
                    if cal.endswith(".reportDecodeError") and len(x["arguments"]) >= 2:
                        recv = unparen(x["arguments"][1]["expression"])
                    elif cal == "buildError" and len(x["arguments"]) >= 3:
                        recv = unparen(x["arguments"][2]["expression"])
                    else:
                        continue
                    n += 1
                    bad = recv.get("type") == "Identifier" and recv["value"] == label
                    rep.ob(rid, "%s/received-is-the-label/%s" % (cname, cal.rsplit(".", 2)[-2] if "." in cal else cal), not bad,
                           "%s.%s pushes the path segment `%s` and reports `%s` itself as the received value (%s): the path addresses `input[%s]`, so `received` is not the value found there" % (cname, mname, label, label, cal, label),
                           mod.loc(x), sample={"class": cname, "label": label})
    rep.floor(rid, "reports made under a pushed property / index segment", n, 2)


# ---------------------------------------------------------------------------------------------------- C09.23
def enumerators_follow_star_rule(cx, rep, rid):
    """What a module exports is what its own tables list AND what the modules it re-exports with `export *` export.
    The single-name lookups (`get_type` / `get_value`) walk the `extends` list; a function that ENUMERATES a module's
    exports (`typeof NS` of `import * as NS`) has to do the same, or moving a declaration behind an `export *`
    changes the result (`export * from './a'` in a barrel: `typeof NS` lost a's members).  Decided: every function
    that iterates one of the export tables of `SymbolsExportsModule` (a `for` / `iter()` / `keys()` / `values()` over a
    Map-typed field of that type) reads the star list - the `Vec<file>` field of the same type - itself or in a
    function of the compiler it calls (two levels)."""
    F = cx.rs
    adt = next((k for k in F.adts if k.endswith("SymbolsExportsModule")), None)
    if adt is None:
        rep.anchor_missing(rid, "SymbolsExportsModule")
        return
    tables = set()
    stars = set()
    for v in F.adts[adt]["variants"]:
        for fl in v["fields"]:
            if re.match(r"^std::collections::(?:HashMap|BTreeMap)<", fl["ty"] or ""):
                tables.add(fl["name"])
            if re.match(r"^std::vec::Vec<.*FileName>$", fl["ty"] or "") or re.match(r"^std::vec::Vec<BffFileName>$", fl["ty"] or ""):
                stars.add(fl["name"])
    rep.floor(rid, "export tables of SymbolsExportsModule", len(tables), 2)
    rep.floor(rid, "star lists of SymbolsExportsModule", len(stars), 1)

    def reads_star(g, depth=2, seen=None):
        seen = seen if seen is not None else set()
        if g in seen or g not in F.hir:
            return False
        seen.add(g)
        for x in walk(F.hir[g]["body"]):
            if x["k"] == "Field" and x.get("adt") == adt and x.get("name") in stars:
                return True
            if depth > 0 and x["k"] in ("Call", "MethodCall"):
                g2 = F._callee_gid(CRATE, x.get("resolved") or x.get("callee") or "")
                if g2 in F.hir and reads_star(g2, depth - 1, seen):
                    return True
        return False
    n = 0
    for g, f, t in _fn_trees(F):
        enum_ = []
        for x in walk(t["body"]):
            if x["k"] == "MethodCall" and x.get("method") in ("iter", "keys", "values", "into_iter", "iter_mut", "drain") and x["recv"].get("k") == "Field" and x["recv"].get("adt") == adt and x["recv"].get("name") in tables:
                enum_.append(x)
            if x["k"] == "Call" and (x.get("callee") or "").endswith("IntoIterator::into_iter") and x.get("args"):
                a = x["args"][0]
                while a.get("k") in ("AddrOf", "DropTemps"):
                    a = a["e"]
                if a.get("k") == "Field" and a.get("adt") == adt and a.get("name") in tables:
                    enum_.append(x)
        # the tables may be handed to a helper that walks them (`self.push_exports_as_values(&exports.named_values, ..)`,
        # benign b81): a table passed on as an argument is enumerated as well
        for x in walk(t["body"]):
            if x["k"] in ("Call", "MethodCall"):
                for a in (x.get("args") or []):
                    while a.get("k") in ("AddrOf", "DropTemps"):
                        a = a["e"]
                    if a.get("k") == "Field" and a.get("adt") == adt and a.get("name") in tables:
                        enum_.append({"k": "MethodCall", "recv": a, "line": x["line"]})
        if not enum_:
            continue
        n += 1
        rep.ob(rid, "%s/follows-export-star" % f.name, reads_star(g),
               "%s enumerates the export tables of a module (%s) and never reads its `export *` list: what the module re-exports with `export * from` is missing from the enumeration, so moving a declaration into a file behind an `export *` changes the result (`typeof NS` of `import * as NS` loses those members)" % (
                   g, ", ".join(sorted({(e_["recv"]["name"] if e_["k"] == "MethodCall" else "?") for e_ in enum_}))),
               "%s:%s" % (f.file, enum_[0]["line"]), sample={"fn": g})
    rep.floor(rid, "functions that enumerate a module's export tables", n, 1)


REGISTRY = {
    "C09": [("C09.23", "a function that enumerates a module's exports also follows its `export *` list", enumerators_follow_star_rule)],
    "C03": [("C03.24", "the results of several child validators for the SAME input are combined by the deep merge, never by a shallow spread", same_input_merge_rule)],
    "C13": [("C13.14", "a method that fills the block buffer compresses a full block before it returns (the padding byte always fits)", fill_level_rule)],
    "C04": [("C04.14", "a comparator handed to a standard sort is a composition of key comparisons (no choice of comparison by a test on the pair)", comparator_rule)],
    "C07": [("C07.17", "a raw intersection node is constructed by the merging smart constructor only (or consumed by the engine on the spot)", raw_intersection_rule),
            ("C07.18", "the union accumulator drops a member only by a payload-precise test", union_absorption_rule)],
    "C11": [("C11.10", "object members of an intersection reach the runtime merged: a raw intersection node is constructed by the merging smart constructor only (= C07.17)", raw_intersection_rule)],
    "C01": [("C01.29", "the union accumulator drops a member only by a payload-precise test (= C07.18)", union_absorption_rule)],
    "C12": [("C12.15", "under a pushed property / index segment the received value is the value at that segment, never the segment itself", received_is_not_the_label_rule),
            ("C12.14", "a reporter never takes a nested union error apart (its branch errors carry paths relative to it)", union_error_intact_rule)],
    "C15": [("C15.19", "`Array<T>` lowers to an array node for every T: the spelling describe() gives a tuple rest compiles again", array_spelling_rule)],
}
