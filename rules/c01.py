"""C01 — generated validators accept exactly the values of the declared type (structural clauses only).

C01.1  constructor-table agreement across the language boundary: every constructor name the Rust printer can
       emit is a class the JS glue imports (or defines) and the client exports, with the emitted arity and
       literal arguments inside the declared parameter domains
C01.2  template-literal types are matched against the whole string
C01.3  escape_regex escapes every regular-expression syntax character, backslash first
C01.4  every runtime class implements the whole Runtype interface
C01.5  typed-array names agree between frontend, IR and the ECMAScript globals
"""
import re
import tsast
from facts import walk, WASM
from facts import children as _children
from rules import ts_common

LEVEL = "other"
GLUE = "packages/beff-wasm/bundled-code/codegen-v2.js"
TYPED_ARRAYS = {"Int8Array", "Uint8Array", "Uint8ClampedArray", "Int16Array", "Uint16Array", "Int32Array", "Uint32Array",
                "Float32Array", "Float64Array", "BigInt64Array", "BigUint64Array"}
REGEX_SYNTAX = set("\\^$.*+?()[]{}|/")
LINE_TERMINATORS = {"\n": "\\n", "\r": "\\r", "\u2028": "\\u2028", "\u2029": "\\u2029"}


def locals_in(n):
    return [x["name"] for x in walk(n) if x["k"] == "Path" and x.get("res") == "local"]


class PrinterStrings:
    """interprocedural string-literal propagation over the functions of print/printer.rs"""

    def __init__(self, F):
        self.F = F
        self.fns = {g: F.hir[g] for g in F.hir if (F.fns.get(g) and "/src/print/" in (F.fns[g].file or ""))}
        self.params = {g: [p.get("name") for p in t["params"]] for g, t in self.fns.items()}
        self.calls = {}   # callee gid -> [(caller gid, call node)]
        for g, t in self.fns.items():
            for n in walk(t["body"]):
                if n["k"] == "Call" and n.get("callee") in self.fns:
                    self.calls.setdefault(n["callee"], []).append((g, n))
        self.extra_fns = {}

    def strs(self, expr, fn, depth=0):
        """set of string literals the expression may evaluate to (None element = unknown)"""
        out = set()
        if depth > 6:
            return {None}
        k = expr["k"]
        if k == "Lit" and expr.get("lit") == "str":
            return {expr["v"]}
        if k in ("AddrOf", "Unary"):
            return self.strs(expr["e"], fn, depth)
        if k == "Path" and expr.get("res") != "local" and expr.get("def"):
            # a named constant (`const ARRAY_RUNTYPE: &str = "ArrayRuntype"`): its initialiser
            ct = self.F.hir.get(self.F._callee_gid("beff_core", expr["def"])) or self.F.hir.get(expr["def"])
            if ct is not None and not ct.get("params"):
                return self.strs(ct["body"], fn, depth + 1)
            return {None}
        if k == "BlockExpr" and not expr["block"]["stmts"] and expr["block"].get("expr") is not None:
            return self.strs(expr["block"]["expr"], fn, depth)
        if k == "Path" and expr.get("res") == "local":
            name = expr["name"]
            ps = self.params.get(fn, [])
            if name in ps:
                idx = ps.index(name)
                sites = self.calls.get(fn, [])
                if not sites:
                    return {None}
                for caller, call in sites:
                    if idx < len(call["args"]):
                        out |= self.strs(call["args"][idx], caller, depth + 1)
                return out
            # let-bound local: find its initialiser
            for n in walk(self.fns[fn]["body"]):
                if n["k"] == "LetStmt" and n["pat"].get("name") == name and n.get("init") is not None:
                    return self.strs(n["init"], fn, depth + 1)
            return {None}
        if k == "MethodCall":
            c = expr.get("callee") or ""
            if c.rsplit("::", 1)[-1] in ("to_string", "into", "clone", "as_str", "to_owned", "as_ref"):
                return self.strs(expr["recv"], fn, depth)
            # a local method returning only string literals (e.g. TypedArrayKind::js_name)
            tree = self.F.hir.get(c)
            if tree is not None:
                lits = {x["v"] for x in walk(tree["body"]) if x["k"] == "Lit" and x.get("lit") == "str"}
                return lits or {None}
            return {None}
        if k == "Call":
            c = expr.get("callee") or ""
            if c.rsplit("::", 1)[-1] in ("from", "into", "to_string", "String"):
                return self.strs(expr["args"][0], fn, depth) if expr["args"] else {None}
            return {None}
        if k == "Match":
            for a in expr["arms"]:
                out |= self.strs(a["body"], fn, depth)
            return out
        if k == "If":
            out |= self.strs(expr["then"], fn, depth)
            if expr.get("else"):
                out |= self.strs(expr["else"], fn, depth)
            return out
        if k == "BlockExpr":
            b = expr["block"]
            if b.get("expr") is not None:
                return self.strs(b["expr"], fn, depth)
        return {None}

    def vec_len(self, expr):
        """number of elements of a `vec![..]` argument, or None when it is not a literal vector"""
        arrs = [n for n in walk(expr) if n["k"] == "Array"]
        if arrs and any("vec" in (n.get("mac") or []) for n in walk(expr)):
            return len(arrs[0]["es"]), arrs[0]["es"]
        if expr["k"] == "Call" and (expr.get("callee") or "").endswith("Vec::<T>::new"):
            return 0, []
        if expr["k"] == "MethodCall" and expr["method"] == "into" and arrs:
            return len(arrs[0]["es"]), arrs[0]["es"]
        if arrs and expr["k"] in ("Call", "MethodCall"):
            return len(arrs[0]["es"]), arrs[0]["es"]
        return None, None


def partial_projection_rule(cx, rep, rid, files=("print/printer.rs", "frontend/mod.rs", "ast/json.rs", "ast/runtype.rs", "subtyping/mod.rs", "subtyping/to_schema.rs")):
    """The printer rebuilds validators from parts of IR nodes (object shapes for discriminated unions, hoisted
    constants).  A pattern over a struct-like RuntypeKind variant that takes some fields and ignores the others (`..`,
    `_`, or a binding that is never used) is a projection that silently drops a constraint: the rebuilt validator
    accepts / rejects other values than the node it was taken from.  Accepted: every field bound and used (in the
    guard or the body), or constrained by a refutable sub-pattern; patterns that bind nothing are kind tests."""
    F = cx.rs
    rk = F.adts.get("ast::runtype::RuntypeKind")
    if rk is None:
        rep.anchor_missing(rid, "RuntypeKind")
        return
    vfields = {v["name"]: [fl["name"] for fl in v["fields"]] for v in rk["variants"]}
    n = 0
    for g in sorted(F.hir):
        f = F.fns.get(g)
        if f is None or not (f.file or "").endswith(tuple(files)):
            continue
        tree = F.hir[g]
        scopes = []   # (pattern node, [nodes in which its bindings may be used])
        for m in walk(tree["body"]):
            if m["k"] == "Match":
                for a in m["arms"]:
                    scopes.append((a["pat"], [a.get("guard"), a["body"]]))
            elif m["k"] == "If" and m["cond"]["k"] == "Let":
                scopes.append((m["cond"]["pat"], [m["then"]]))
            elif m["k"] == "LetStmt":
                scopes.append((m["pat"], [tree["body"]]))
        for pat, uses in scopes:
            for x in walk(pat):
                if x["k"] != "P.Struct" or not (x.get("def") or "").startswith("ast::runtype::RuntypeKind::"):
                    continue
                var = x["def"].rsplit("::", 1)[-1]
                declared = vfields.get(var) or []
                if len(declared) < 2 or any(d.isdigit() for d in declared):
                    continue
                used_lids = {y.get("lid") for u in uses if u is not None for y in walk(u) if y["k"] == "Path" and y.get("res") == "local"}
                taken, ignored = [], []
                by_name = {fl["name"]: fl["pat"] for fl in x["fields"]}
                for fld in declared:
                    sp = by_name.get(fld)
                    if sp is None or sp["k"] == "P.Wild":
                        ignored.append(fld)
                        continue
                    binds = [b for b in walk(sp) if b["k"] == "P.Binding"]
                    refutable = any(b["k"] in ("P.Struct", "P.TupleStruct", "P.Lit", "P.Expr", "P.Path", "P.Range") for b in walk(sp))
                    if binds and any(b.get("lid") in used_lids for b in binds):
                        taken.append(fld)
                    elif refutable:
                        taken.append(fld)      # constrained by the pattern itself
                    elif binds:
                        ignored.append(fld)    # bound but never used
                    else:
                        ignored.append(fld)
                if not taken:
                    continue
                n += 1
                rep.ob(rid, "%s/%s" % (f.id.rsplit("::", 1)[-1], var), not ignored,
                       "%s takes %s of RuntypeKind::%s but ignores %s: what it rebuilds from the node has lost that constraint (e.g. an index signature), so the emitted validator differs from the declared type" % (
                           f.id, taken, var, ignored), "%s:%s" % (f.file, x["line"]), sample={"fn": f.id, "variant": var, "fields_used": taken})
    rep.floor(rid, "projections of struct-like RuntypeKind variants in the printer", n, 3)


def scope_stack_rule(cx, rep, rid):
    """A Vec<(name, binding)> field that is pushed and popped is a scope stack (generic parameters, mapped-type key
    variables): the same name may be bound twice, and the innermost binding is the visible one.  Every lookup in it must
    therefore run from the top of the stack: `.iter().rev().find(..)`, `for .. in s.iter().rev()`, `rfind`, `rposition`.
    A forward search returns the OUTER binding of a shadowed name and the instantiated type gets the wrong argument."""
    F = cx.rs
    # candidate fields: (owner adt, field) of type Vec<(String, ..)> with both push and pop calls somewhere
    pushed, popped = set(), set()
    uses = []   # (fn, iter-call node, chain of enclosing method names, is for-loop)
    for g in sorted(F.hir):
        f = F.fns.get(g)
        if f is None:
            continue
        tree = F.hir[g]
        parents = {}
        for n in walk(tree["body"]):
            for k_, v_ in n.items():
                if isinstance(v_, dict) and "k" in v_:
                    parents[id(v_)] = n
                elif isinstance(v_, list):
                    for x in v_:
                        if isinstance(x, dict) and "k" in x:
                            parents[id(x)] = n
        for n in walk(tree["body"]):
            if n["k"] != "MethodCall":
                continue
            r = n["recv"]
            while r["k"] in ("AddrOf", "Unary"):
                r = r["e"]
            if r["k"] != "Field" or not re.match(r"^std::vec::Vec<\(std::string::String, ", r.get("ty") or ""):
                continue
            key = (r.get("adt"), r["name"])
            if n["method"] == "push":
                pushed.add(key)
            elif n["method"] == "pop":
                popped.add(key)
            elif n["method"] in ("iter", "iter_mut", "into_iter"):
                chain = []
                cur = n
                forloop = False
                while id(cur) in parents:
                    par = parents[id(cur)]
                    if par["k"] == "MethodCall" and par["recv"] is cur:
                        chain.append(par["method"])
                        cur = par
                        continue
                    if par["k"] == "Call" and (par.get("callee") or "").endswith("IntoIterator::into_iter"):
                        forloop = True
                    break
                uses.append((key, f, n, chain, forloop))
    stacks = pushed & popped
    rep.floor(rid, "scope stacks (Vec<(String, _)> fields with push and pop)", len(stacks), 1)
    n_l = 0
    for key, f, n, chain, forloop in uses:
        if key not in stacks:
            continue
        order_sensitive = forloop or any(m in ("find", "find_map", "position", "next", "nth", "take", "skip_while", "take_while", "last", "rfind", "rposition", "next_back") for m in chain)
        if not order_sensitive:
            continue
        n_l += 1
        ok = (chain[:1] == ["rev"]) or any(m in ("rfind", "rposition", "next_back") for m in chain[:2]) and "rev" not in chain
        rep.ob(rid, "%s.%s/%s" % ((key[0] or "?").rsplit("::", 1)[-1], key[1], f.id.rsplit("::", 1)[-1]), ok,
               "%s searches the scope stack `%s` from the bottom (%s): a name bound twice (a generic instantiated inside another generic with the same parameter name) resolves to the OUTER binding" % (
                   f.id, key[1], ".".join(["iter"] + chain) + (" in a for loop" if forloop else "")),
               "%s:%s" % (f.file, n["line"]), sample={"stack": key[1], "lookup": ".".join(["iter"] + chain), "fn": f.id})
    rep.floor(rid, "lookups in scope stacks", n_l, 1)


def run(cx, rep):
    F = cx.rs
    fam = ts_common.Family(cx)
    mod = fam.mod
    glue = cx.ts(GLUE)
    rep.explanation = (
        "Writer/reader agreement across the Rust -> JavaScript boundary, decided from source shape: string literals are "
        "propagated interprocedurally through the printer's helper functions (typed HIR) to every site that builds a "
        "`new <Name>(..)` expression, giving the set of (constructor name, argument count, literal-valued arguments) the "
        "compiler can emit; the swc AST of the client gives exported classes, constructor arity and the literal unions of "
        "their parameters; the glue's import list and local classes are read from bundled-code/codegen-v2.js. A missing, "
        "mis-arity or out-of-domain constructor makes the emitted module throw or mis-validate. Further: whole-string "
        "matching of template-literal regexes, completeness of escape_regex, interface completeness of every runtime "
        "class, typed-array name agreement. Membership of values in types is NOT decided.")
    rep.trusted = ["rustc typed HIR of print/printer.rs", "swc AST of codegen-v2.ts and bundled-code/codegen-v2.js"]
    P = PrinterStrings(F)
    # sinks: functions building Expr::New with a callee identifier taken from a parameter
    sinks = {}
    for g, t in P.fns.items():
        for n in walk(t["body"]):
            if n["k"] == "Struct" and (n.get("def") or "").endswith("NewExpr"):
                ps = P.params[g]
                cal = [f["e"] for f in n["fields"] if f["name"] == "callee"]
                used = [p for p in ps if cal and p in locals_in(cal[0])]
                if used:
                    sinks[g] = {"name_param": ps.index(used[0]), "args_param": [i for i, p in enumerate(ps) if p == "args"][0] if "args" in ps else 1, "extra": 0}
    # wrappers that prepend arguments and pass name/args through
    changed = True
    while changed:
        changed = False
        for g, t in P.fns.items():
            if g in sinks:
                continue
            for n in walk(t["body"]):
                if n["k"] == "Call" and n.get("callee") in sinks:
                    sk = sinks[n["callee"]]
                    ps = P.params[g]
                    a_name = n["args"][sk["name_param"]]
                    a_args = n["args"][sk["args_param"]]
                    if a_name["k"] == "Path" and a_name.get("name") in ps and a_args["k"] == "Path" and a_args.get("name") in ps:
                        ins = len([x for x in walk(t["body"]) if x["k"] == "MethodCall" and x["method"] == "insert" and locals_in(x["recv"]) == [a_args["name"]]])
                        sinks[g] = {"name_param": ps.index(a_name["name"]), "args_param": ps.index(a_args["name"]), "extra": sk["extra"] + ins}
                        changed = True
                    elif a_name["k"] == "Path" and a_name.get("name") in ps and (a_args["k"] != "Path" or a_args.get("res") == "local"):
                        # the argument vector is assembled in a local: `once(first).chain(rest_args).collect()` -
                        # the wrapper's parameter supplies the rest, every `once(..)` prepends one argument.
                        # b92 (round 11, Z3): the same chain written IN PLACE of the argument
                        # (`sink(name, once(meta).chain(args).collect())`) is the same vector as one bound to a local first.
                        if a_args["k"] == "Path":
                            inits = [st["init"] for st in walk(t["body"])
                                     if st["k"] == "LetStmt" and st["pat"].get("name") == a_args.get("name") and st.get("init") is not None]
                        else:
                            inits = [a_args]
                        for init in inits:
                            inner = [y.get("name") for x in walk(init) if x["k"] == "MethodCall" and x.get("method") in ("chain", "extend") and x.get("args")
                                     for y in walk(x["args"][0]) if y["k"] == "Path" and y.get("res") == "local" and y.get("name") in ps]
                            onces = len([x for x in walk(init) if x["k"] == "Call" and (x.get("callee") or "").endswith("iter::once")])
                            if len(set(inner)) == 1 and not any(x["k"] == "MethodCall" and x.get("method") in ("filter", "skip", "take", "filter_map", "step_by") for x in walk(init)):
                                sinks[g] = {"name_param": ps.index(a_name["name"]), "args_param": ps.index(inner[0]), "extra": sk["extra"] + onces}
                                changed = True
    rep.rule("C01.1", "constructor table: printer (writer) vs glue imports vs client classes (reader)")
    rep.ob("C01.1", "sinks", len(sinks) >= 2, "could not find the functions that build `new <Name>(..)` expressions in printer.rs", "packages/beff-core/src/print/printer.rs",
           sample={"new_expression_builders": sorted(x.rsplit("::", 1)[-1] for x in sinks)})
    emitted = {}   # name -> set(arity)
    literal_args = {}  # (name, position) -> set(literals)
    for g, t in P.fns.items():
        for n in walk(t["body"]):
            if n["k"] == "Call" and n.get("callee") in sinks:
                sk = sinks[n["callee"]]
                if g in sinks and n["args"][sk["name_param"]]["k"] == "Path" and n["args"][sk["name_param"]].get("name") in P.params[g]:
                    continue  # pass-through wrapper (the name is the wrapper's own parameter; its call sites are judged)
                names = P.strs(n["args"][sk["name_param"]], g)
                cnt, elems = P.vec_len(n["args"][sk["args_param"]])
                for nm in names:
                    if nm is None:
                        rep.ob("C01.1", "unresolved-name/%s" % g.rsplit("::", 1)[-1], False, "constructor name at a `new` site in %s is not a resolvable string literal" % g,
                               "%s:%s" % (F.fns[g].file, n["line"]))
                        continue
                    if cnt is None:
                        rep.ob("C01.1", "unresolved-arity/%s" % nm, False, "argument vector for `new %s` in %s is not a literal vec![..]" % (nm, g), "%s:%s" % (F.fns[g].file, n["line"]))
                        continue
                    emitted.setdefault(nm, set()).add(cnt + sk["extra"])
                    for i, el in enumerate(elems):
                        for c in walk(el):
                            if c["k"] == "Call" and (c.get("callee") or "").endswith("string_lit"):
                                lits = P.strs(c["args"][0], g)
                                if None not in lits and el is c or (el["k"] == "Call" and el is c):
                                    literal_args.setdefault((nm, i + sk["extra"]), set()).update(lits)
                        if el["k"] == "MethodCall" and el["method"] == "to_expr":
                            lits = P.strs(el["recv"], g)
                            for c in walk(el["recv"]):
                                if c["k"] == "MethodCall" and (c.get("callee") or "").endswith("js_name"):
                                    lits = P.strs(c, g)
                                    if None not in lits:
                                        literal_args.setdefault((nm, i + sk["extra"]), set()).update(lits)
    rep.floor("C01.1", "constructor names the printer can emit", len(emitted), 20)
    imported = set()
    for src, names in glue.imports:
        if "codegen-v2" in src:
            imported |= {imp for imp, loc in names}
    local_glue = set(glue.classes)
    for nm, arities in sorted(emitted.items()):
        ok_where = nm in imported or nm in local_glue
        rep.ob("C01.1", "imported/%s" % nm, ok_where, "the printer emits `new %s(..)` but the glue module neither imports nor defines %s: the generated module throws ReferenceError at load" % (nm, nm),
               GLUE, sample={"constructor": nm, "arity": sorted(arities)})
        cls = mod.classes.get(nm)
        if nm in local_glue:
            base = glue.classes[nm].extends
            cls = mod.classes.get(base)
        if cls is None:
            rep.ob("C01.1", "class/%s" % nm, False, "no class %s in codegen-v2.ts" % nm, mod.rel)
            continue
        # constructor (own or inherited)
        c = cls
        while c and c.ctor is None:
            c = mod.classes.get(c.extends) if c.extends else None
        params = c.ctor_params() if c else []
        rep.ob("C01.1", "arity/%s" % nm, arities == {len(params)},
               "the printer emits `new %s` with %s argument(s); the class constructor takes %d: arguments are shifted or dropped" % (nm, sorted(arities), len(params)),
               mod.loc(c.ctor) if c else mod.rel, sample={"constructor": nm, "emitted_arity": sorted(arities), "declared_arity": len(params)})
        for (n2, pos), lits in sorted(literal_args.items()):
            if n2 != nm or pos >= len(params):
                continue
            ann = params[pos][1]
            dom = tsast.literal_union(ann)
            if dom is None and ann is not None and ann.get("type") == "TsTypeReference":
                al = mod.type_aliases.get(tsast.type_str(ann))
                dom = tsast.literal_union(al["typeAnnotation"]) if al else None
            if dom is not None:
                rep.ob("C01.1", "literal/%s/%d" % (nm, pos), lits <= dom,
                       "the printer passes %s as argument %d of %s, whose declared domain is %s" % (sorted(lits - dom), pos, nm, sorted(dom)), mod.loc(c.ctor),
                       sample={"constructor": nm, "position": pos, "emitted_literals": sorted(lits), "declared_domain": sorted(dom)})
    for nm in sorted(imported):
        rep.ob("C01.1", "exported/%s" % nm, nm in mod.exports, "the glue imports `%s` from @beff/client/codegen-v2, which does not export it" % nm, GLUE)
    # ---------------------------------------------------------------- C01.6
    rep.rule("C01.6", "the intersection smart constructor merges object members only when nothing observable is lost")
    from rules.c08 import all_of_merge_rule
    all_of_merge_rule(cx, rep, "C01.6")
    # ---------------------------------------------------------------- C01.2
    rep.rule("C01.2", "template-literal types are matched against the whole string")
    rx = [c for c in fam.classes.values() if any(tsast.type_str(ann) == "RegExp" for _, (o, ann) in fam.all_fields(c.name).items() if ann is not None)]
    rep.ob("C01.2", "class", len(rx) == 1, "expected one runtime class holding a RegExp", mod.rel)
    for c in rx:
        anchored_ctor = False
        # the constructor builds the anchored expression itself or through a local helper (`anchorToWholeString(regex)`)
        ctor_nodes = list(tsast.walk_inl(mod, c.name, c.ctor)) if c.ctor is not None else []
        for x_ in ctor_nodes:
            if x_["type"] == "NewExpression" and tsast.s(x_["callee"]) == "RegExp":
                t = tsast.s(x_)
                if "`^(?:" in t and ")$`" in t or '"^(?:"' in t and '")$"' in t:
                    anchored_ctor = True
        v = c.methods.get("validate")
        full = False
        if v:
            txt = "".join(mod.text(v["function"]).split())
            full = ".test(" in txt and anchored_ctor
        # or the printer anchors the expression itself
        printer_anchored = False
        for g, t in P.fns.items():
            for n in walk(t["body"]):
                if n["k"] == "Struct" and (n.get("def") or "").endswith("Regex"):
                    for f in n["fields"]:
                        if f["name"] == "exp":
                            lits = [x["v"] for x in walk(f["e"]) if x["k"] == "Lit" and x.get("lit") == "str"]
                            if any("^" in l for l in lits) and any("$" in l for l in lits):
                                printer_anchored = True
        rep.ob("C01.2", "%s/whole-string" % c.name, full or printer_anchored,
               "%s tests `regex.test(input)` with an unanchored expression (the printer emits e.g. /(\\d+(\\.\\d+)?)(px)/ for `${number}px`): \"abc12pxyz\" is accepted although it is not a member of the template literal type" % c.name,
               mod.loc(c.node), sample={"class": c.name, "anchored_in_constructor": anchored_ctor, "anchored_by_printer": printer_anchored})
    # ---------------------------------------------------------------- C01.3
    rep.rule("C01.3", "escape_regex escapes every regular-expression syntax character, backslash first")
    # by role: the function &str -> String of the IR module that rewrites characters with `replace` (free function
    # or associated function, whatever its name)
    er = []
    for g in sorted(F.hir):
        f_ = F.fns.get(g)
        if f_ is None or f_.kind == "Closure" or not (f_.file or "").endswith("ast/runtype.rs"):
            continue
        if (f_.inputs or []) == ["&str"] and (f_.output or "").endswith("String") and any(
                (n["k"] == "MethodCall" and n["method"] == "replace") or (n["k"] == "Lit" and n.get("lit") == "char" and n.get("v") == "\\")
                for n in walk(F.hir[g]["body"])):
            # .. of REGULAR EXPRESSION syntax (the function that turns chunk text back into template source also
            # rewrites characters): it mentions several regex metacharacters, directly or in a constant table
            lits_g = {x.get("v") for x in walk(F.hir[g]["body"]) if x["k"] == "Lit"} | {x.get("lit") for x in walk(F.hir[g]["body"]) if x["k"].startswith("P.") and x.get("lit") is not None}
            for x in walk(F.hir[g]["body"]):
                if x["k"] == "Path" and x.get("res") == "def" and (x.get("defkind") or "").startswith("Const") and x.get("def") in F.hir:
                    lits_g |= {y.get("v") for y in walk(F.hir[x["def"]]["body"]) if y["k"] == "Lit"}
            # (a table may also be ONE string constant of punctuation characters: `SPECIAL.contains(c)`, seed C01-q)
            for v_ in list(lits_g):
                if isinstance(v_, str) and len(v_) >= 3 and not any(ch_.isalnum() or ch_.isspace() for ch_ in v_):
                    lits_g |= set(v_)
            if len({c for c in "()[]{}.*+?|^$" if c in lits_g}) >= 3:
                er.append(g)
    if len(er) != 1:
        rep.anchor_missing("C01.3", "the regex-escaping function (&str -> String using replace) in ast/runtype.rs; found %d" % len(er))
    else:
        t = F.hir[er[0]]
        pair_order = None
        chain = []     # (node, char, replacement) in pre-order: the outermost call (last applied) comes first
        lt_chain = []  # the same for line terminators (rewritten as escape SEQUENCES, judged separately below)
        table = None   # or: the characters of a table that is folded / looped over, in application order
        table_ok = True
        for n in walk(t["body"]):
            if n["k"] == "MethodCall" and n["method"] == "replace":
                a0 = n["args"][0]
                if a0["k"] == "Lit":
                    rp = n["args"][1].get("v") if n["args"][1]["k"] == "Lit" else None
                    if a0.get("v") in LINE_TERMINATORS:
                        lt_chain.append((n, a0.get("v"), rp))
                    else:
                        chain.append((n, a0.get("v"), rp))
                    continue
                # pair-table form: `acc.replace(*from, to)` for each (from, to) of a constant table of pairs - the
                # same thing as the chain, in table order
                pair_tabs = []
                for x in walk(t["body"]):
                    arr = None
                    if x["k"] == "Path" and x.get("res") == "def" and (x.get("defkind") or "").startswith("Const") and x.get("def") in F.hir:
                        arr = next((y for y in walk(F.hir[x["def"]]["body"]) if y["k"] == "Array"), None)
                    elif x["k"] == "Array":
                        arr = x
                    if arr is not None and arr.get("es") and all(e["k"] == "Tup" and len(e.get("es", [])) == 2 and all(z["k"] == "Lit" for z in e["es"]) for e in arr["es"]):
                        pair_tabs.append(arr)
                if len(pair_tabs) == 1 and n["args"][1]["k"] != "Lit":
                    for e in reversed(pair_tabs[0]["es"]):          # the last entry is applied last = outermost
                        ch_, rp_ = e["es"][0].get("v"), e["es"][1].get("v")
                        (lt_chain if ch_ in LINE_TERMINATORS else chain).append((e, ch_, rp_))
                    pair_order = [e["es"][0].get("v") for e in pair_tabs[0]["es"]]
                    continue
                # table-driven form: `acc.replace(*c, &format!("\\{}", c))` for each c of a constant character table
                ev = set(locals_in(a0))
                seqs = []
                for x in walk(t["body"]):
                    if x["k"] == "Path" and x.get("res") == "def" and (x.get("defkind") or "").startswith("Const") and "char" in (x.get("ty") or "") and x.get("def") in F.hir:
                        seqs.append(F.hir[x["def"]]["body"])
                    elif x["k"] == "Array" and "char" in (x.get("ty") or ""):
                        seqs.append(x)
                if len(ev) == 1 and len(seqs) == 1 and seqs[0]["k"] == "Array" and all(e["k"] == "Lit" and e.get("lit") == "char" for e in seqs[0]["es"]):
                    table = [e["v"] for e in seqs[0]["es"]]
                    # replacement: format template = one literal byte `\`, one default placeholder, end; its only
                    # argument is the same element
                    tmpl = [x.get("v") for x in walk(n["args"][1]) if x["k"] == "Lit" and x.get("lit") == "bytes"]
                    rl = set(locals_in(n["args"][1])) - {"args"}
                    table_ok = tmpl == ["015cc000"] and rl == ev
                else:
                    table_ok = False
        # single-pass form: for every character, `if matches!(c, 'x' | 'y' | ..) { out.push('\\') } out.push(c)`
        single = None
        if not chain and table is None:
            for n in walk(t["body"]):
                if n["k"] != "Match":
                    continue
                lits = []
                for a in n["arms"]:
                    ps_ = a["pat"]["pats"] if a["pat"]["k"] == "P.Or" else [a["pat"]]
                    cs_ = [p_.get("lit") for p_ in ps_ if p_.get("lit") is not None]
                    if cs_ and len(cs_) == len(ps_):
                        lits.append((cs_, a))
                    # a guard arm `c if TABLE.contains(c)` whose table is one string of characters (a constant or a
                    # literal): the arm stands for every character of the table (seed C01-q)
                    gd = a.get("guard")
                    if gd is not None and gd["k"] == "MethodCall" and gd["method"] == "contains" and a["pat"]["k"] == "P.Binding":
                        rv = gd["recv"]
                        while rv.get("k") in ("AddrOf", "DropTemps"):
                            rv = rv["e"]
                        tv = None
                        if rv["k"] == "Lit" and rv.get("lit") == "str":
                            tv = rv.get("v")
                        elif rv["k"] == "Path" and rv.get("res") == "def" and rv.get("def") in F.hir:
                            tv = next((y.get("v") for y in walk(F.hir[rv["def"]]["body"]) if y["k"] == "Lit" and y.get("lit") == "str"), None)
                        if tv:
                            lits.append((list(tv), a))
                # .. or a table asked inside an arm's body: `_ => { if TABLE.contains(&ch) { out.push('\\') } out.push(ch) }`
                # with TABLE a constant array of characters or a string (benign b109)
                for y in walk(n):
                    if y["k"] == "MethodCall" and y["method"] == "contains" and y.get("args"):
                        rv = y["recv"]
                        while rv.get("k") in ("AddrOf", "DropTemps", "Deref"):
                            rv = rv["e"]
                        body_ = F.hir[rv["def"]]["body"] if rv["k"] == "Path" and rv.get("res") == "def" and rv.get("def") in F.hir else rv
                        cs_ = [z.get("v") for z in walk(body_) if z["k"] == "Lit" and z.get("lit") == "char"]
                        if not cs_:
                            cs_ = [ch_ for z in walk(body_) if z["k"] == "Lit" and z.get("lit") == "str" for ch_ in (z.get("v") or "")]
                        if cs_ and not any((cs_, a_) in lits for a_ in n["arms"]):
                            lits.append((cs_, None))
                pushes_bs = any(x["k"] == "MethodCall" and x["method"] in ("push", "push_str") and x["args"] and x["args"][0]["k"] == "Lit" and x["args"][0].get("v") in ("\\",) for x in walk(t["body"]))
                if lits and pushes_bs:
                    single = sorted({c_ for cs_, _ in lits for c_ in cs_})
            if single is not None:
                table_ok = True
        if single is not None:
            chars = [c_ for c_ in single if c_ != "\\"] + ["\\"]   # one pass: order is immaterial
            rep.ob("C01.3", "single-pass", True, sample={"escaped": "".join(single)})
        elif table is not None and not chain:
            chars = list(reversed(table))
            rep.ob("C01.3", "table/replacement", table_ok, "each table character must be replaced by a backslash followed by the character itself", F.fns[er[0]].loc())
        else:
            chars = [c for _, c, _ in chain]
            if table is not None or not table_ok:
                rep.ob("C01.3", "form", False, "escape_regex mixes literal and computed replacements; cannot be decided", F.fns[er[0]].loc())
        applied_first = chars[-1] if chars else None
        rep.ob("C01.3", "covers-syntax", REGEX_SYNTAX <= set(c for c in chars if c), "escape_regex does not escape %s: such a character in a template literal part changes what the validator accepts" % sorted(REGEX_SYNTAX - set(c for c in chars if c)),
               F.fns[er[0]].loc(), sample={"escaped": "".join(c for c in chars if c)})
        rep.ob("C01.3", "backslash-first", applied_first == "\\", "the backslash must be escaped before the other characters (first replacement escapes %r)" % applied_first, F.fns[er[0]].loc())
        for n, ch, rp in chain:
            if ch and ch not in LINE_TERMINATORS:
                rep.ob("C01.3", "replacement/%s" % ch, rp == "\\" + ch, "escape of %r is %r, expected %r" % (ch, rp, "\\" + ch), "%s:%s" % (F.fns[er[0]].file, n["line"]))
        # the escaped text is copied into a regex LITERAL of the emitted module: a raw line terminator (LF, CR, U+2028,
        # U+2029) inside /../ is a syntax error - the module does not load (C04) - and a backslash in front of it does
        # not help.  Whatever form the function has, it must mention each terminator together with its escape sequence.
        lits_ = {x.get("v") for x in walk(t["body"]) if x["k"] == "Lit"} | {x.get("lit") for x in walk(t["body"]) if x["k"].startswith("P.") and x.get("lit") is not None}
        for x in walk(t["body"]):
            if x["k"] == "Path" and x.get("res") == "def" and (x.get("defkind") or "").startswith("Const") and x.get("def") in F.hir:
                lits_ |= {y.get("v") for y in walk(F.hir[x["def"]]["body"]) if y["k"] == "Lit"}
        for ch, esc in sorted(LINE_TERMINATORS.items()):
            rep.ob("C01.3", "line-terminator/%s" % esc.strip("\\"), ch in lits_ and esc in lits_,
                   "escape_regex does not rewrite the line terminator %r as %s: a template literal type whose text contains it (`a\\nb${string}`) is emitted as a regex literal broken over two lines, and the generated module does not load" % (ch, esc),
                   F.fns[er[0]].loc(), sample={"terminator": esc})
        for n, ch, rp in lt_chain:
            rep.ob("C01.3", "replacement/%s" % LINE_TERMINATORS[ch].strip("\\"), rp == LINE_TERMINATORS[ch], "escape of %r is %r, expected %r" % (ch, rp, LINE_TERMINATORS[ch]), "%s:%s" % (F.fns[er[0]].file, n["line"]))
            # the backslash this replacement introduces must not be doubled afterwards: the text it is applied to
            # (its receiver) already went through the escaping of the syntax characters
            if pair_order is not None:
                later = [c_ for c_ in chain if pair_order.index(c_[1]) > pair_order.index(ch)]
            else:
                inner = [x for x in walk(n["recv"])] if n.get("recv") is not None else []
                later = [c_ for c_ in chain if not any(x is c_[0] for x in inner)]
            rep.ob("C01.3", "after-backslash/%s" % LINE_TERMINATORS[ch].strip("\\"), not later,
                   "the line terminator %r is rewritten as %s BEFORE the syntax characters are escaped (%s comes later): the backslash of the escape sequence is doubled and the expression demands a literal backslash" % (ch, LINE_TERMINATORS[ch], ", ".join(repr(c_[1]) for c_ in later)),
                   "%s:%s" % (F.fns[er[0]].file, n["line"]))
    # ---------------------------------------------------------------- C01.7
    rep.rule("C01.7", "the printer takes IR nodes apart without dropping a field")
    partial_projection_rule(cx, rep, "C01.7")
    # ---------------------------------------------------------------- C01.14 (= C15.10)
    rep.rule("C01.14", "the regex of a template literal type is built from the text its chunks stand for (cooked), and the description escapes it again")
    from rules.c15 import template_chunk_rule
    template_chunk_rule(cx, rep, "C01.14")
    # ---------------------------------------------------------------- C01.15
    rep.rule("C01.15", "a key validator of an index signature is offered the numeric reading of a property name")
    ts_common.numeric_key_rule(ts_common.Family(cx), ts_common.Family(cx).mod, rep, "C01.15")
    # ---------------------------------------------------------------- C01.19 (= C08.3 keeps-optionality)
    rep.rule("C01.19", "two types that differ in the optionality of a member never share a hoisted validator")
    from rules.c08 import hoist_key_optionality_rule
    hoist_key_optionality_rule(cx, rep, "C01.19")
    # ---------------------------------------------------------------- C01.20 (= C05.13)
    from rules.c05 import engine_decides_rule
    engine_decides_rule(cx.rs, rep, "C01.20")
    # ---------------------------------------------------------------- C01.21 .. C01.24 (frontend lowering of syntax)
    syntax_fields_rule(cx, rep, "C01.21")
    modifier_agreement_rule(cx, rep, "C01.22")
    rest_last_rule(cx, rep, "C01.23")
    proto_key_rule(cx, rep, "C01.24")
    # ---------------------------------------------------------------- C01.26
    conditional_decides_once_rule(cx, rep, "C01.26")
    # ---------------------------------------------------------------- C01.25 (= C03.7 + C11.2)
    # which keys of an object count as DECLARED decides which values reach the index-signature validators and which
    # keys are surplus: a key named like a member of Object.prototype that passes for declared is accepted unvalidated
    rep.rule("C01.25", "the object class tells declared from undeclared keys by the declared-key list itself (= C03.7, C11.2)")
    lifted_rules(cx, rep, "C01.25", (("rules.c03", "C03.7"), ("rules.c11", "C11.2")))
    # ---------------------------------------------------------------- C01.18 (= C07.11)
    rep.rule("C01.18", "the rest element of a list answers for every index from the prefix length on (boundary of the prefix walk)")
    prefix_boundary_rule(cx, rep, "C01.18")
    # ---------------------------------------------------------------- C01.16 / C01.17
    rep.rule("C01.16", "every member of a union inside a template literal type contributes an alternative")
    alternation_rule(cx, rep, "C01.16")
    rep.rule("C01.17", "the string placeholder of a template literal type matches text with line breaks")
    dotall_rule(cx, rep, "C01.17")
    # ---------------------------------------------------------------- C01.12 (= C08.6)
    rep.rule("C01.12", "narrowing a property declared by two intersection members keeps the narrower type whichever member comes first")
    from rules.c08 import symmetric_merge_rule
    symmetric_merge_rule(cx, rep, "C01.12")
    # ---------------------------------------------------------------- C01.8
    rep.rule("C01.8", "scope stacks (generic parameters, mapped-type variables) are searched innermost-first")
    scope_stack_rule(cx, rep, "C01.8")
    # ---------------------------------------------------------------- C01.4
    rep.rule("C01.4", "every runtime class implements the whole Runtype interface")
    rep.floor("C01.4", "interface methods", len(fam.iface_methods), 8)
    for cname, c in sorted(fam.concrete().items()):
        for m in fam.iface_methods:
            owner, node = fam.resolve_method(cname, m)
            ok = node is not None and node["function"].get("body") is not None
            rep.ob("C01.4", "%s.%s" % (cname, m), ok, "%s has no concrete %s(): calling it on a validator of this kind throws at run time" % (cname, m), mod.loc(c.node))
    for cname, c in sorted(glue.classes.items()):
        if c.extends and c.extends in fam.classes:
            base_abstract = [mn for mn, mm in mod.classes[c.extends].methods.items() if mm.get("isAbstract")]
            for mn in base_abstract:
                rep.ob("C01.4", "glue/%s.%s" % (cname, mn), mn in c.methods, "glue class %s does not implement abstract %s.%s" % (cname, c.extends, mn), GLUE)
    # ---------------------------------------------------------------- C01.5
    rep.rule("C01.5", "typed-array names agree with the ECMAScript globals")
    jn = [g for g in F.hir if g.endswith("TypedArrayKind::js_name")]
    if len(jn) != 1:
        rep.anchor_missing("C01.5", "TypedArrayKind::js_name")
    else:
        lits = {x["v"] for x in walk(F.hir[jn[0]]["body"]) if x["k"] == "Lit" and x.get("lit") == "str"}
        rep.ob("C01.5", "js_name", lits == TYPED_ARRAYS, "TypedArrayKind::js_name returns %s; the runtime looks these names up on globalThis" % sorted(lits ^ TYPED_ARRAYS), F.fns[jn[0]].loc(),
               sample={"names": sorted(lits)})
        arms = {}
        for n in walk(F.hir[jn[0]]["body"]):
            if n["k"] == "Match":
                for a in n["arms"]:
                    v = (a["pat"].get("def") or "").rsplit("::", 1)[-1]
                    ls = [x["v"] for x in walk(a["body"]) if x["k"] == "Lit" and x.get("lit") == "str"]
                    arms[v] = ls[0] if ls else None
        rep.ob("C01.5", "js_name/variant-equals-name", all(k == v for k, v in arms.items()) and len(arms) == 11,
               "a TypedArrayKind variant maps to another constructor's name: %s" % {k: v for k, v in arms.items() if k != v}, F.fns[jn[0]].loc())
    # frontend: the builtin names that lower to typed arrays
    fe = [g for g in F.hir if g.endswith("maybe_generate_ts_builtin")]
    for g in fe:
        pairs = {}
        for n in walk(F.hir[g]["body"]):
            if n["k"] == "Match":
                for a in n["arms"]:
                    lit = a["pat"].get("lit")
                    kinds = [(x.get("def") or "").rsplit("::", 1)[-1] for x in walk(a["body"]) if x["k"] == "Path" and "TypedArrayKind::" in (x.get("def") or "")]
                    if lit and kinds:
                        pairs[lit] = kinds[0]
        if pairs:
            rep.ob("C01.5", "frontend-names", all(k == v for k, v in pairs.items()) and set(pairs) == TYPED_ARRAYS,
                   "the frontend maps builtin names to typed-array kinds inconsistently: %s" % {k: v for k, v in pairs.items() if k != v}, F.fns[g].loc(), sample={"pairs": len(pairs)})

    # ---------------------------------------------------------------- C01.9
    rep.rule("C01.9", "number / string twins of the frontend and the IR agree")
    import twins
    twins.twin_rule(cx, rep, "C01.9", r"frontend/|ast/", floor=4)
    # ---------------------------------------------------------------- C01.10
    rep.rule("C01.10", "validate() reads every constructor argument it read on the reviewed tree")
    ts_common.field_matrix_rule(cx, rep, "C01.10", ['validate'])
    # ---------------------------------------------------------------- C01.11
    rep.rule("C01.11", "validate(): every element of an array-valued constructor argument is accounted for (no fixed-size prefix)")
    ts_common.truncation_rule(cx, rep, "C01.11", ['validate'])
    # ---------------------------------------------------------------- C01.13
    rep.rule("C01.13", "validate() looks at every index of an input array (no hole-skipping walk of the input)")
    ts_common.hole_skipping_rule(cx, rep, "C01.13", ['validate'])


DROPPING = {"filter", "filter_map", "skip", "take", "skip_while", "take_while", "step_by", "find", "find_map", "nth", "last", "next", "first", "dedup", "truncate", "retain"}


def alternation_rule(cx, rep, rid):
    """A union inside a template literal type (`${"" | "b"}`) becomes an alternation of the members' expressions.
    Every member must contribute an alternative - also the empty string, whose expression is empty: dropping it
    (`.filter(|e| !e.is_empty())`) turns `a${"" | "b"}` into /(a)((b))/, which rejects "a".  Decided on the functions of
    the IR module that turn template items into text (regex and description alike): in the arm for the variant that
    holds a collection of items, nothing between the payload and the `join` drops elements."""
    F = cx.rs
    from rules.c15 import _template_item_enum
    enum, rec_variant = _template_item_enum(F)
    if enum is None:
        rep.anchor_missing(rid, "the template item enum (a variant holding a collection of the enum itself)")
        return
    n = 0
    for g, t in sorted(F.hir.items()):
        f = F.fns.get(g)
        if f is None or f.kind == "Closure" or not (f.file or "").endswith("ast/runtype.rs") or "String" not in (f.output or ""):
            continue
        for m in walk(t["body"]):
            if m["k"] != "Match":
                continue
            for a in m["arms"]:
                if (a["pat"].get("def") or "") != "%s::%s" % (enum, rec_variant):
                    continue
                # the arm itself, or the private helper(s) it hands the collection to
                nodes_a = list(walk(a["body"]))
                for x in list(nodes_a):
                    if x["k"] in ("Call", "MethodCall"):
                        tg = F._callee_gid(f.crate, (x.get("resolved") or x.get("callee") or ""))
                        if tg in F.hir and tg != g and (F.fns[tg].file or "") == (f.file or "") and F.fns[tg].vis != "Public":
                            nodes_a += list(walk(F.hir[tg]["body"]))
                if not any(x["k"] == "MethodCall" and x["method"] == "join" for x in nodes_a):
                    continue
                n += 1
                drops = [x for x in nodes_a if x["k"] == "MethodCall" and x["method"] in DROPPING and not (x.get("callee") or "").startswith("std::option")]
                rep.ob(rid, "%s/every-alternative" % g.rsplit("::", 2)[-2] + "::" + g.rsplit("::", 1)[-1], not drops,
                       "%s drops members of a union of template alternatives (%s) before joining them: a member whose text is empty (`${\"\" | \"b\"}`) or that the adaptor skips no longer matches, so values of the type are rejected" % (g, ", ".join(sorted({x["method"] for x in drops}))),
                       "%s:%s" % (f.file, (drops[0] if drops else a).get("line")), sample={"fn": g})
    rep.floor(rid, "arms that join the alternatives of a template union", n, 2)


def dotall_rule(cx, rep, rid):
    """`${string}` stands for ANY text.  The compiler emits it as `(.*)`; in JavaScript `.` does not match line
    terminators unless the expression has the `s` flag, so "a\\nb" would be rejected by `a${string}`.  Decided across
    the two languages: if the expression the IR module emits for the string placeholder contains an unescaped `.`
    outside a character class, the runtime class that wraps the emitted RegExp compiles it with the `s` flag."""
    F = cx.rs
    from rules.c15 import _template_item_enum
    enum, rec_variant = _template_item_enum(F)
    needs = []
    for g, t in sorted(F.hir.items()):
        f = F.fns.get(g)
        if f is None or not (f.file or "").endswith("ast/runtype.rs") or "String" not in (f.output or ""):
            continue
        for m in walk(t["body"]):
            if m["k"] != "Match":
                continue
            for a in m["arms"]:
                d = a["pat"].get("def") or ""
                if enum and d.startswith(enum + "::") and a["pat"]["k"] == "P.Expr":
                    for x in walk(a["body"]):
                        if x["k"] == "Lit" and x.get("lit") == "str" and re.search(r"(?<!\\)\.[*+]", re.sub(r"\[[^\]]*\]", "", x.get("v") or "")):
                            needs.append((g, d.rsplit("::", 1)[-1], x.get("v")))
    fam = ts_common.Family(cx)
    mod = fam.mod
    n = 0
    for cname, c in sorted(fam.classes.items()):
        if c.ctor is None:
            continue
        params = c.ctor_params()
        if not any("RegExp" in (tsast.type_str(p[1]) if p[1] is not None else "") for p in params):
            continue
        for x in tsast.walk_inl(mod, cname, c.ctor):
            if x["type"] == "NewExpression" and tsast.s(x["callee"]) == "RegExp" and x.get("arguments"):
                n += 1
                flags = tsast.s(x["arguments"][1]["expression"]) if len(x["arguments"]) > 1 else ""
                ok = (not needs) or '"s"' in flags or "'s'" in flags
                rep.ob(rid, "%s/dot-matches-line-breaks" % cname, ok,
                       "the compiler emits %s for the %s placeholder of a template literal type, and %s compiles the expression without the `s` flag (%s): `.` stops at line terminators, so `a${string}` rejects \"a\\nb\", which is a value of the type" % (needs[0][2] if needs else "?", needs[0][1] if needs else "?", cname, flags or "no flags"),
                       mod.loc(x), sample={"emitted": [v for _, _, v in needs], "flags": flags})
    rep.floor(rid, "runtime classes that compile an emitted regular expression", n, 1)


def prefix_boundary_rule(cx, rep, rid):
    """A list type is a prefix of L positional members plus a rest element for every index >= L.  Code that answers
    for a set of indices walks the prefix with `enumerate()` (indices 0 .. L-1, exactly) and adds the rest element
    when the LARGEST index reaches past the prefix.  That test has to be true for max == L and false for max == L-1:
    written against `L` it is `max >= L` or `max > L - 1`; any other offset (`max > L`) loses the member at index L
    (`[string, ...number[]][1]` becomes `never`) or adds the rest element to a tuple index.  Decided for the
    functions of the subtyping engine that enumerate a slice parameter and compare something with its length: the
    comparison is linear in L and its boundary is the one above."""
    F = cx.rs
    n = 0
    for g, t in sorted(F.hir.items()):
        f = F.fns.get(g)
        if f is None or f.kind == "Closure" or "/src/subtyping/" not in (f.file or ""):
            continue
        body = t["body"]
        # slices that are enumerated
        enum_lids = set()
        for x in walk(body):
            if x["k"] == "MethodCall" and x["method"] == "enumerate":
                for y in walk(x["recv"]):
                    if y["k"] == "Path" and y.get("res") == "local" and re.search(r"^&?\[|Vec<", y.get("ty") or ""):
                        enum_lids.add(y["lid"])
        if not enum_lids:
            continue
        # L: locals bound to <slice>.len(), and the expression itself
        len_lids = set()
        for x in walk(body):
            if x["k"] == "LetStmt" and x.get("init") is not None and x["pat"]["k"] == "P.Binding":
                i_ = x["init"]
                if i_["k"] == "MethodCall" and i_["method"] == "len" and any(y["k"] == "Path" and y.get("lid") in enum_lids for y in walk(i_["recv"])):
                    len_lids.add(x["pat"]["lid"])

        def linear(e):
            """(coefficient of L, constant) or None"""
            while e["k"] in ("Cast", "Paren", "DropTemps"):
                e = e["e"]
            if e["k"] == "Path" and e.get("lid") in len_lids:
                return (1, 0)
            if e["k"] == "MethodCall" and e["method"] == "len" and any(y["k"] == "Path" and y.get("lid") in enum_lids for y in walk(e["recv"])):
                return (1, 0)
            if e["k"] == "Lit" and re.match(r"^-?\d+$", str(e.get("v"))):
                return (0, int(e["v"]))
            if e["k"] == "Binary" and e["op"] in ("Add", "Sub"):
                l_, r_ = linear(e["l"]), linear(e["r"])
                if l_ is None or r_ is None:
                    return None
                sg = 1 if e["op"] == "Add" else -1
                return (l_[0] + sg * r_[0], l_[1] + sg * r_[1])
            return None
        for x in walk(body):
            if x["k"] != "Binary" or x["op"] not in ("Gt", "Ge", "Lt", "Le"):
                continue
            l_, r_ = linear(x["l"]), linear(x["r"])
            # exactly one side is (L + c); the other side is something else (a maximum, an index)
            if (l_ is None) == (r_ is None):
                continue
            lin, other, op = (r_, x["l"], x["op"]) if l_ is None else (l_, x["r"], {"Gt": "Lt", "Ge": "Le", "Lt": "Gt", "Le": "Ge"}[x["op"]])
            if lin[0] != 1:
                continue
            if any(y["k"] == "Path" and y.get("lid") in len_lids for y in walk(other)):
                continue
            # now: other OP L + c.  Only the "reaches past the prefix" direction is a boundary of this kind.
            if op not in ("Gt", "Ge"):
                continue
            n += 1
            c = lin[1]
            ok = (op == "Gt" and c == -1) or (op == "Ge" and c == 0)
            rep.ob(rid, "%s/rest-from-index-L" % g.rsplit("::", 1)[-1], ok,
                   "%s walks the prefix with enumerate() (indices 0 .. L-1) and then tests `<max> %s L%s` to decide whether the rest element takes part: for max == L that is %s, so the member at index L (the first rest position) is %s - `[string, ...number[]][1]` is computed as `never`" % (
                       g, ">" if op == "Gt" else ">=", ("%+d" % c) if c else "", "false" if not ok and ((op == "Gt" and c > -1) or (op == "Ge" and c > 0)) else "true for max == L-1 already", "lost" if ((op == "Gt" and c > -1) or (op == "Ge" and c > 0)) else "added to a prefix index"),
                   "%s:%s" % (f.file, x["line"]), sample={"fn": g, "comparison": "%s L%+d" % (op, c)})
    rep.floor(rid, "prefix / rest boundary tests", n, 1)


# ---------------------------------------------------------------------------------------------------- C01.21
def syntax_fields_rule(cx, rep, rid):
    """A field of a syntax node that changes the meaning of the type and is never read by the frontend is lowered as if
    it were absent - silently.  For the reviewed list of such fields (tables/c01_syntax_fields.json) some function under
    src/frontend reads the field (field access on the node type, or a struct pattern that names it)."""
    F = cx.rs
    rep.rule(rid, "the frontend reads every field of a syntax node that changes the meaning of the type (reviewed list)")
    want = cx.table("c01_syntax_fields.json")["fields"]
    read = set()
    for g, t in F.hir.items():
        f = F.fns.get(g)
        if f is None or "/src/frontend" not in (f.file or "") and "/src/swc_tools" not in (f.file or "") and "/src/parser_extractor" not in (f.file or ""):
            continue
        for n in walk(t["body"]):
            if n["k"] == "Field" and n.get("adt"):
                read.add((n["adt"].rsplit("::", 1)[-1], n["name"]))
            if n["k"] == "P.Struct" and n.get("def"):
                for fl in n.get("fields", []):
                    if fl.get("pat", {}).get("k") != "P.Wild":
                        read.add((n["def"].rsplit("::", 1)[-1], fl["name"]))
    for e in want:
        ok = (e["adt"], e["field"]) in read
        rep.ob(rid, "%s.%s" % (e["adt"], e["field"]), ok,
               "no function of the frontend reads `%s.%s` (%s): the construct is lowered as if that part were not written, without a diagnostic" % (e["adt"], e["field"], e["reason"]),
               "packages/beff-core/src/frontend/mod.rs", sample={"adt": e["adt"], "field": e["field"], "read": ok})


# ---------------------------------------------------------------------------------------------------- C01.22
def modifier_agreement_rule(cx, rep, rid):
    """`?` and `+?` on a mapped type both ADD the optional modifier (`-?` removes it).  In every case analysis over
    swc's `TruePlusMinus` that yields an `Optionality`, the value for `Plus` equals the value for `True` - also when
    `Plus` falls into a catch-all arm."""
    F = cx.rs
    rep.rule(rid, "`+?` means the same as `?` wherever a mapped type's optional modifier is turned into an optionality")
    n = 0
    def ctor(body):
        for x in walk(body):
            d = x.get("callee") if x["k"] == "Call" else x.get("def")
            if d and "Optionality::" in d and x["k"] in ("Call", "Path", "Struct"):
                return d.rsplit("::", 1)[-1]
        return None
    for g, t in sorted(F.hir.items()):
        f = F.fns.get(g)
        if f is None or "/src/frontend" not in (f.file or ""):
            continue
        for m in walk(t["body"]):
            if m["k"] != "Match":
                continue
            arms = {}
            wild = None
            for a in m["arms"]:
                vs = {(p.get("def") or "").rsplit("::", 1)[-1] for p in walk(a["pat"]) if "TruePlusMinus::" in (p.get("def") or "")}
                c = ctor(a["body"])
                for v in vs:
                    arms[v] = c
                if not vs and any(p["k"] == "P.Wild" for p in walk(a["pat"])):
                    wild = c
            if "True" not in arms or arms["True"] is None:
                continue
            n += 1
            plus = arms.get("Plus", wild)
            rep.ob(rid, "%s/plus-like-true" % g.rsplit("::", 1)[-1], plus == arms["True"],
                   "%s turns the modifier `?` into Optionality::%s but `+?` into %s: `{[K in X]+?: T}` makes the members optional exactly like `?`" % (g, arms["True"], "Optionality::%s" % plus if plus else "nothing"),
                   "%s:%s" % (f.file, m.get("line")), sample={"fn": g, "True": arms["True"], "Plus": plus})
    rep.floor(rid, "case analyses over the optional modifier of mapped types", n, 1)


# ---------------------------------------------------------------------------------------------------- C01.26
def conditional_decides_once_rule(cx, rep, rid):
    """`C extends E ? X : Y` is decided by ONE inclusion test of C as written.  TypeScript distributes the test over the
    members of a union only when C is a naked type parameter; for an alias of a union or an inline `(A | B)` the whole
    type is tested.  A lowering that splits the resolved checked type and decides per member turns `Role extends
    "admin" ? P : Q` (Role = "admin" | "user") from Q into P | Q: the validator accepts values of a type the program does
    not have.  Decided over the functions of the frontend that take the conditional-type node: no inclusion decision
    (`is_subtype`) - and no call of another such function that leads to one - sits inside a loop or an iterator
    closure, unless a test that reads the scope of type parameters (the stack the generic application pushes on)
    guards the loop."""
    F = cx.rs
    rep.rule(rid, "a conditional type is decided once, on the checked type as written (no distribution over a resolved union)")
    fam = {}
    for g, t in sorted(F.hir.items()):
        f = F.fns.get(g)
        if f is None or "/src/frontend" not in (f.file or "") or f.kind == "Closure":
            continue
        if any("TsConditionalType" in (x or "") for x in (f.inputs or [])):
            fam[g] = t
    if not fam:
        rep.anchor_missing(rid, "frontend functions that take a TsConditionalType")
        return
    # the scope of type parameters: the field of the frontend context that generic application pushes (name, type) on
    scope_fields = set()
    for g, t in F.hir.items():
        f = F.fns.get(g)
        if f is None or "/src/frontend" not in (f.file or ""):
            continue
        for x in walk(t["body"]):
            if x["k"] == "MethodCall" and x.get("method") == "push" and x["recv"]["k"] == "Field" and re.search(r"Vec<\((std::string::)?String, (\w+::)*Runtype\)>", x["recv"].get("ty") or ""):
                scope_fields.add(x["recv"]["name"])

    def decides(t):
        return [x for x in walk(t["body"]) if x["k"] == "MethodCall" and x.get("method") == "is_subtype"]
    leads = {g for g, t in fam.items() if decides(t)}
    grew = True
    while grew:
        grew = False
        for g, t in fam.items():
            if g in leads:
                continue
            for x in walk(t["body"]):
                if x["k"] in ("Call", "MethodCall") and F._callee_gid(F.fns[g].crate, (x.get("callee") if x["k"] == "Call" else (x.get("resolved") or x.get("callee"))) or "") in leads:
                    leads.add(g)
                    grew = True
                    break
    n = 0
    for g, t in sorted(fam.items()):
        f = F.fns[g]
        parents = {}
        for x in walk(t["body"]):
            for c_ in _children(x):
                parents[id(c_)] = x
        events = decides(t) + [x for x in walk(t["body"]) if x["k"] in ("Call", "MethodCall") and
                               F._callee_gid(f.crate, (x.get("callee") if x["k"] == "Call" else (x.get("resolved") or x.get("callee"))) or "") in (leads - {g})]
        for ev in events:
            n += 1
            cur, loop, guarded = ev, None, False
            while id(cur) in parents:
                par = parents[id(cur)]
                if par["k"] == "Loop" or (par["k"] == "Closure" and id(par) in parents and parents[id(par)]["k"] == "MethodCall"):
                    loop = loop or par
                if loop is not None and par["k"] in ("If", "Match"):
                    tst = par.get("cond") or par.get("scrut")
                    if tst is not None and not any(z is loop for z in walk(tst)) and any(z["k"] == "Field" and z.get("name") in scope_fields for z in walk(tst)):
                        guarded = True
                cur = par
            what = ev.get("method") or (ev.get("callee") or "?").rsplit("::", 1)[-1]
            rep.ob(rid, "%s/%s" % (f.name, what), loop is None or guarded,
                   "%s reaches the inclusion decision of a conditional type (`%s`) inside a loop that is not guarded by a test of the type-parameter scope: the checked type is split and decided member by member although it is not a naked type parameter - `Role extends \"admin\" ? P : Q` with Role = \"admin\" | \"user\" lowers to P | Q instead of Q" % (g, what),
                   "%s:%s" % (f.file, ev["line"]), sample={"fn": f.name, "event": what, "in_loop": loop is not None})
    rep.floor(rid, "inclusion decisions (and calls leading to one) in the conditional-type lowering", n, 1)


# ---------------------------------------------------------------------------------------------------- C01.23
def rest_last_rule(cx, rep, rid):
    """The runtime tuple is `prefix.., ...rest[]`: elements, then the rest.  A tuple type with an element AFTER its rest
    element (`[string, ...number[], boolean]`) cannot be represented; lowering it by collecting the non-rest elements
    into the prefix reorders it silently.  Decided on the loop that lowers the elements of a `TsTupleType`: the branch
    that pushes a prefix element is taken only where the rest element is known to be unset (a test of the rest
    local that leads to an error), or the loop stops at the rest element."""
    F = cx.rs
    rep.rule(rid, "a tuple type is lowered to prefix-then-rest only when its rest element comes last")
    n = 0
    for g, t in sorted(F.hir.items()):
        f = F.fns.get(g)
        if f is None or "/src/frontend" not in (f.file or ""):
            continue
        for lp in walk(t["body"]):
            if not (lp["k"] == "Match" and lp.get("src") == "ForLoopDesugar"):
                continue
            rest_tests = [x for x in walk(lp) if x["k"] in ("Let", "P.TupleStruct", "P.Struct") and "TsRestType" in ((x.get("pat") or x).get("def") or "") + json_defs(x)]
            if not rest_tests:
                continue
            pushes = [x for x in walk(lp) if x["k"] == "MethodCall" and x.get("method") == "push"]
            opt_locals = [x for x in walk(lp) if x["k"] == "MethodCall" and x.get("method") in ("is_some", "is_none") ]
            if not pushes:
                continue
            n += 1
            # a test of the rest local (is_some / is_none / pattern on it) inside the branch that pushes, or guarding it
            guarded = False
            def opt_test(e):
                return any(x["k"] == "MethodCall" and x.get("method") in ("is_some", "is_none") for x in walk(e))
            for iff in walk(lp):
                if iff["k"] != "If":
                    continue
                for branch in (iff.get("else"), iff.get("then")):
                    if branch is None or not any(x is pushes[0] for x in walk(branch)):
                        continue
                    if any(x["k"] == "MethodCall" and x.get("method") in ("is_some", "is_none") for x in walk(branch) if not any(y is pushes[0] for y in walk(x))):
                        guarded = True
                    if opt_test(iff["cond"]):
                        guarded = True
            # .. or an earlier statement of an enclosing block tests the rest local and leaves (`if rest.is_some() { return error }`)
            for blk in walk(lp):
                if blk["k"] != "Block":
                    continue
                stmts = list(blk.get("stmts") or []) + ([blk["expr"]] if blk.get("expr") else [])
                for i, st in enumerate(stmts):
                    if any(x is pushes[0] for x in walk(st)):
                        for prev in stmts[:i]:
                            e = prev.get("e") if prev.get("k") in ("ExprStmt", "Semi") else prev
                            if isinstance(e, dict) and e.get("k") == "If" and opt_test(e["cond"]) and any(x["k"] == "Ret" for x in walk(e["then"])):
                                guarded = True
                        break
            rep.ob(rid, "%s/rest-is-last" % g.rsplit("::", 1)[-1], guarded,
                   "%s lowers the elements of a tuple type by pushing every non-rest element onto the prefix without asking whether the rest element was already seen: `[string, ...number[], boolean]` becomes `[string, boolean, ...number[]]`, a different type, without a diagnostic" % g,
                   "%s:%s" % (f.file, lp.get("line")), sample={"fn": g})
    rep.floor(rid, "loops that lower the elements of a tuple type", n, 1)


def json_defs(x):
    return " ".join((y.get("def") or "") for y in walk(x))


# ---------------------------------------------------------------------------------------------------- C01.24 (= C03.17)
def proto_key_rule(cx, rep, rid):
    """In a JavaScript object literal `{ "__proto__": v }` does not define a property: it sets the prototype.  The
    printer writes tables keyed by USER strings as object literals (declared property names, discriminator values,
    type names): a declared property called `__proto__` then never reaches the validator's table (it is not
    validated at all), and the table's prototype is a validator.  Necessary: wherever the key text of an emitted
    property is not a literal of the printer, the key `__proto__` is spelled as a computed key - at the site (a helper
    that mentions the name and builds `PropName::Computed`) or by a pass over the finished module applied by the
    function that hands the module to the emitter."""
    F = cx.rs
    rep.rule(rid, "a user-supplied key `__proto__` is emitted as a computed key (an object literal would set the prototype instead)")
    from facts import mentions_str_lit
    data_sites = []
    fixers = []
    emitters = []
    for g, t in sorted(F.hir.items()):
        f = F.fns.get(g)
        if f is None or "/src/print/" not in (f.file or ""):
            continue
        body = t["body"]
        if mentions_str_lit(F, body, "__proto__") and any((x.get("callee") or x.get("def") or "").endswith("PropName::Computed") for x in walk(body) if x["k"] in ("Call", "Path", "Struct")):
            fixers.append(g)
        if any(x["k"] == "MethodCall" and x.get("method") == "emit_module" for x in walk(body)):
            emitters.append(g)
        for x in walk(body):
            if x["k"] == "Call" and (x.get("callee") or "").endswith("PropName::Str") and x.get("args"):
                st = x["args"][0]
                val = None
                for y in walk(st):
                    if y["k"] == "Struct" and (y.get("def") or "").endswith("Str"):
                        val = next((fl["e"] for fl in y.get("fields", []) if fl["name"] == "value"), None)
                if val is None:
                    val = st        # the Str token is built by a helper (`string_token(key)`): judge the argument
                lits = [z for z in walk(val) if z["k"] == "Lit" and z.get("lit") == "str"]
                if not lits:
                    data_sites.append((g, x.get("line")))
    rep.floor(rid, "object keys emitted from data (not printer literals)", len(data_sites), 1)
    passes = False
    # the pass and the emitter may sit in two helpers of one driver (`let m = with_own_proto_keys(items); print(m)`)
    appliers = [g for g, t in F.hir.items() if F.fns.get(g) is not None and "/src/print/" in (F.fns[g].file or "") and
                any(x["k"] == "MethodCall" and x.get("method") in ("visit_mut_with", "fold_with") for x in walk(t["body"]))]
    def reach2(g, depth=2, seen=None):
        seen = seen if seen is not None else {g}
        if depth > 0:
            for x in walk(F.hir[g]["body"]):
                if x["k"] in ("Call", "MethodCall"):
                    cal = x.get("callee") if x["k"] == "Call" else (x.get("resolved") or x.get("callee"))
                    tg = F._callee_gid("beff_core", cal or "")
                    if tg in F.hir and tg not in seen and "/src/print/" in ((F.fns.get(tg) and F.fns[tg].file) or ""):
                        seen.add(tg)
                        reach2(tg, depth - 1, seen)
        return seen
    if fixers and appliers:
        for g, t in F.hir.items():
            if F.fns.get(g) is None or "/src/print/" not in (F.fns[g].file or ""):
                continue
            r = reach2(g)
            if any(a_ in r for a_ in appliers) and any(e_ in r for e_ in emitters):
                passes = True
    for e in emitters:
        for x in walk(F.hir[e]["body"]):
            if x["k"] == "MethodCall" and x.get("method") in ("visit_mut_with", "fold_with", "visit_mut_children_with"):
                passes = passes or bool(fixers)
            if x["k"] in ("Call", "MethodCall"):
                cal = x.get("callee") if x["k"] == "Call" else (x.get("resolved") or x.get("callee"))
                if F._callee_gid("beff_core", cal or "") in fixers:
                    passes = True
    for g, line in data_sites:
        rep.ob(rid, "%s/data-key" % g.rsplit("::", 1)[-1], passes or g in fixers,
               "%s emits an object-literal key taken from data (a declared property name, a discriminator value, a type name) as a plain string key, and nothing on the way to the emitter rewrites the key `__proto__` into a computed key: `{\"__proto__\": v}` sets the prototype of the table instead of defining the entry, so a declared property `__proto__` is never validated" % g,
               "%s:%s" % (F.fns[g].file, line), sample={"fn": g, "normalised_before_emission": passes})


def lifted_rules(cx, rep, rid, sources):
    """re-run rules of other property modules in a scratch report and restate their verdicts under `rid`"""
    from report import Report
    import importlib
    for modname, other in sources:
        sub = Report.__new__(Report)
        sub.pid = "sub"; sub.tier = rep.tier; sub.level = "other"; sub.t0 = 0
        sub.rules = {}; sub.violations = []; sub.samples = []; sub.analysed = {}; sub.assumptions = []; sub.trusted = []
        sub.explanation = ""; sub.notes = []; sub.extra = {}; sub.known = {}; sub.known_hit = set()
        try:
            importlib.import_module(modname).run(cx, sub)
        except Exception as e:
            rep.ob(rid, "%s/evaluable" % other, False, "could not evaluate %s inside this check: %s" % (other, e))
            continue
        r = sub.rules.get(other, {"obligations": 0, "discharged": 0})
        bad = [v for v in sub.violations if v["rule"] == other]
        rep.ob(rid, other, not bad and r["obligations"] > 0,
               "%s is violated: %s" % (other, "; ".join(v["msg"][:260] for v in bad[:2])),
               bad[0]["loc"] if bad else None, sample={"rule": other, "obligations": r["obligations"], "discharged": r["discharged"]})
