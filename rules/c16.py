"""C16 — schema-printing contexts collect definitions independently of call order.

C16.1  typestate: a definition marked in-progress is stored (or the mark cleared) on every exit, exceptional ones included
C16.2  first writer wins, once: storeDefinition only under the not-present-and-not-in-progress guard for the same name;
       the definition table has one writer; export copies
C16.3  the stored body is computed from the named type alone
"""
import re
import tsast
from tsast import walk, s, unparen, method_call
from rules import ts_common

LEVEL = "other"


def stmts_of(block):
    if block is None:
        return []
    if block["type"] == "BlockStatement":
        return block["stmts"]
    return [block]


def calls_in(n):
    return [x for x in walk(n) if x["type"] in ("CallExpression", "NewExpression")]


def run(cx, rep):
    mod = cx.ts(ts_common.CODEGEN)
    rep.explanation = (
        "Typestate over the swc AST of codegen-v2.ts: every `markDefinitionInProgress(n)` site is followed, inside a "
        "`try` whose catch/finally clears the mark, or with no call that can throw in between, by `storeDefinition(n, ..)`; "
        "the methods that clear a mark are derived from the context class (those deleting from inProgressDefinitions). "
        "Store sites must sit under the `!hasDefinition(n) && !isDefinitionInProgress(n)` guard (or after the "
        "complementary early return) for the same name; `collectedDefinitions` has one writer; exportDefinitions returns "
        "a copy. Decides: no history of schemaWithContext calls - including ones that throw - can leave a dangling "
        "in-progress mark or overwrite a definition. Does not decide synthetic-name collisions (value-level).")
    rep.trusted = ["swc AST"]
    spc = mod.classes.get("SchemaPrintingContext")
    if spc is None:
        rep.anchor_missing("C16", "class SchemaPrintingContext")
        return
    # role discovery inside the context class
    prog_field = None
    defs_field = None
    markers, clearers, storers = set(), set(), set()
    for mname, m in spc.methods.items():
        fn = m["function"]
        for n in walk(fn):
            if n["type"] == "AssignmentExpression" and n["left"]["type"] == "MemberExpression" and s(n["left"]["object"]).startswith("this.") \
                    and n["left"]["property"]["type"] == "Computed":
                fld = s(n["left"]["object"])[5:]
                if s(n["right"]) == "true":
                    markers.add(mname)
                    prog_field = fld
                else:
                    storers.add(mname)
                    defs_field = fld
    # several dictionaries may be written; the DEFINITION table is the one the parameterless export method reads
    written = {}
    for mname, m in spc.methods.items():
        for n in walk(m["function"]):
            if n["type"] == "AssignmentExpression" and n["left"]["type"] == "MemberExpression" and s(n["left"]["object"]).startswith("this.") \
                    and n["left"]["property"]["type"] == "Computed" and s(n["right"]) != "true":
                written.setdefault(s(n["left"]["object"])[5:], set()).add(mname)
    if len(written) > 1:
        exported = set()
        for mname, m in spc.methods.items():
            fn = m["function"]
            if fn.get("body") is None or fn_param_count(fn) != 0:
                continue
            for n in walk(fn["body"]):
                for fld in written:
                    if n["type"] == "SpreadElement" and s(n.get("arguments") or n.get("argument") or {}) == "this.%s" % fld:
                        exported.add(fld)
                    if n["type"] == "CallExpression" and s(n["callee"]) in ("Object.assign", "Object.entries", "Object.fromEntries", "structuredClone") and \
                            any(s(a.get("expression", a)) == "this.%s" % fld for a in n["arguments"]):
                        exported.add(fld)
        if len(exported) == 1:
            defs_field = next(iter(exported))
            storers = set(written[defs_field])
    for mname, m in spc.methods.items():
        for n in walk(m["function"]):
            if n["type"] == "UnaryExpression" and n["operator"] == "delete" and prog_field and s(n["argument"]).startswith("this.%s[" % prog_field):
                clearers.add(mname)
    # a method that clears through a private method of the context clears as well
    grew = True
    while grew:
        grew = False
        for mname, m in spc.methods.items():
            if mname in clearers or m["function"].get("body") is None:
                continue
            for n in walk(m["function"]):
                mc = method_call(n) if n["type"] == "CallExpression" else None
                if mc and s(mc[0]) == "this" and mc[1] in clearers:
                    clearers.add(mname)
                    grew = True
                    break
    # a method that marks AND writes the definition table is not a storer for the rules below (its call sites carry
    # no body); it is reported by C16.2 (mark-writes-no-definition)
    mark_and_store = sorted(markers & storers)
    storers = storers - markers
    rep.rule("C16.1", "in-progress marks are resolved on every exit, exceptional ones included")
    rep.ob("C16.1", "roles", bool(markers) and bool(storers) and bool(clearers) and storers <= clearers,
           "could not identify mark/store/clear methods of SchemaPrintingContext (mark %s, store %s, clear %s)" % (markers, storers, clearers), mod.loc(spc.node),
           sample={"mark": sorted(markers), "store": sorted(storers), "clear": sorted(clearers), "in_progress_field": prog_field, "definitions_field": defs_field})
    n_sites = 0
    # the protocol may be driven from methods of the validator classes or from module-level helpers they share
    units = [(cname, mname, m["function"], "%s.%s" % (cname, mname)) for cname, c in sorted(mod.classes.items()) if c is not spc
             for mname, m in sorted(c.methods.items()) if m["function"].get("body") is not None]
    units += [(None, fname, fn, fname) for fname, fn in sorted(mod.functions.items()) if fn.get("body") is not None]
    def n_users(cname, mname):
        """a site in a shared helper stands for each of its call sites (two copies merged into one helper are still two uses)"""
        k = 0
        for c2, m2, fn2, _ in units:
            if fn2 is not None and not (c2 == cname and m2 == mname):
                for x in walk(fn2):
                    if x["type"] != "CallExpression":
                        continue
                    if cname is None and unparen(x["callee"]).get("type") == "Identifier" and unparen(x["callee"])["value"] == mname:
                        k += 1
                    elif cname is not None and c2 == cname and method_call(x) and s(method_call(x)[0]) == "this" and method_call(x)[1] == mname:
                        k += 1
        return max(1, k)
    for cname, mname, fn, ulabel in units:
        if True:
            for blk in [x for x in walk(fn["body"]) if x["type"] == "BlockStatement"]:
                st = blk["stmts"]
                for i, sx in enumerate(st):
                    if sx["type"] != "ExpressionStatement":
                        continue
                    mc = method_call(sx["expression"])
                    if not mc or mc[1] not in markers:
                        continue
                    n_sites += n_users(cname, mname)
                    name = s(mc[2][0])
                    recv = s(mc[0])
                    # scan forward to the store for the same name
                    ok = None
                    why = "no storeDefinition(%s, ..) follows in the same block" % name
                    for j in range(i + 1, len(st)):
                        sj = st[j]
                        mj = method_call(sj["expression"]) if sj["type"] == "ExpressionStatement" else None
                        if mj and mj[1] in storers and s(mj[2][0]) == name:
                            ok = True if ok is None else ok
                            break
                        if sj["type"] == "TryStatement":
                            # the try must contain the store and clear the mark in catch or finally
                            has_store = any(method_call(x) and method_call(x)[1] in storers and s(method_call(x)[2][0]) == name for x in calls_in(sj["block"]) if x["type"] == "CallExpression")
                            clr = []
                            for part in (sj.get("handler") and sj["handler"]["body"], sj.get("finalizer")):
                                if part:
                                    clr += [x for x in calls_in(part) if x["type"] == "CallExpression" and method_call(x) and method_call(x)[1] in clearers and s(method_call(x)[2][0]) == name]
                            if has_store and clr:
                                ok = True if ok is None else ok
                            else:
                                ok = False
                                why = "the try block after the mark does not clear it for `%s` in catch/finally" % name
                            break
                        if calls_in(sj):
                            ok = False
                            why = "`%s` can throw between markDefinitionInProgress(%s) and storeDefinition: the mark would stay and every later schemaWithContext on this context emits a $ref to a definition that is never exported" % (
                                s(calls_in(sj)[0])[:60], name)
                            # keep scanning to see whether a store exists at all
                    rep.ob("C16.1", "%s/%s" % (ulabel, name), bool(ok), why, mod.loc(sx), sample={"site": ulabel, "name": name})
    rep.floor("C16.1", "markDefinitionInProgress sites (a shared helper counts once per caller)", n_sites, 2)
    # ---------------------------------------------------------------- C16.2
    rep.rule("C16.2", "first writer wins, once")
    n_store = 0
    for cname, mname, fn, ulabel in units:
        if True:
            for call in [x for x in walk(fn) if x["type"] == "CallExpression" and method_call(x) and method_call(x)[1] in storers]:
                n_store += n_users(cname, mname)
                name = s(method_call(call)[2][0])
                guarded = guarded_by_absence(fn, call, name)
                rep.ob("C16.2", "%s/guard" % ulabel, guarded,
                       "storeDefinition(%s, ..) is not under `!hasDefinition(%s) && !isDefinitionInProgress(%s)`: a definition could be overwritten by a later (possibly partial) body" % (name, name, name),
                       mod.loc(call), sample={"site": ulabel, "name": name})
    rep.floor("C16.2", "storeDefinition call sites (a shared helper counts once per caller)", n_store, 2)
    writers = set()
    for cname, c in mod.classes.items():
        for mname, m in c.methods.items():
            if m["function"].get("body") is None:
                continue
            for n in walk(m["function"]):
                if n["type"] == "AssignmentExpression" and defs_field and ("." + defs_field + "[") in s(n["left"]):
                    writers.add("%s.%s" % (cname, mname))
                if n["type"] == "UnaryExpression" and n["operator"] == "delete" and defs_field and ("." + defs_field + "[") in s(n["argument"]):
                    writers.add("%s.%s(delete)" % (cname, mname))
    rep.ob("C16.2", "mark-writes-no-definition", not mark_and_store,
           "%s marks a name as in progress AND writes the definition table: from then on hasDefinition(name) holds although no body was printed - when printing fails and the mark is abandoned the placeholder stays, later printers emit a $ref to it instead of printing (or failing), and the export lists a definition nobody stored" % ", ".join("SchemaPrintingContext.%s" % m_ for m_ in mark_and_store),
           mod.loc(spc.methods[mark_and_store[0]]["function"]) if mark_and_store else mod.loc(spc.node), sample={"methods": mark_and_store})
    rep.ob("C16.2", "single-writer", writers == {"SchemaPrintingContext.%s" % x for x in storers},
           "the definition table is written by %s; only storeDefinition may write it" % sorted(writers), mod.loc(spc.node), sample={"writers": sorted(writers)})
    ex = spc.methods.get("exportDefinitions")
    if ex is None:
        rep.anchor_missing("C16.2", "exportDefinitions")
    else:
        copies = [n for n in walk(ex["function"]) if n["type"] == "SpreadElement" and s(n["arguments"]) == "this.%s" % defs_field]
        direct = [n for n in walk(ex["function"]) if n["type"] == "ReturnStatement" and s(n.get("argument")) == "this.%s" % defs_field]
        rep.ob("C16.2", "export-copies", bool(copies) and not direct, "exportDefinitions must return a copy of the definition table", mod.loc(ex))
    hd = spc.methods.get("hasDefinition")
    if hd:
        txt = [s(n["argument"]) for n in walk(hd["function"]) if n["type"] == "ReturnStatement"]
        rep.ob("C16.2", "hasDefinition-reads-table", len(txt) == 1 and defs_field in txt[0], "hasDefinition must consult the definition table (found %s)" % txt, mod.loc(hd))
    # ---------------------------------------------------------------- C16.5
    rep.rule("C16.5", "collected definition bodies are only read by the final export")
    # which methods of the context hand out a stored body (a read of the table that is not a presence test and not a
    # write); what schema() returns must not depend on them: whether a body is already there depends on which parser
    # was printed first and on where in a recursion the caller is
    value_readers = set()
    if defs_field:
        for mname, m in spc.methods.items():
            fn = m["function"]
            if fn.get("body") is None:
                continue
            for n in walk(fn):
                if n["type"] == "MemberExpression" and s(n) == "this.%s" % defs_field:
                    # classify the use of this occurrence
                    use = "value"
                    for par in walk(fn):
                        if par["type"] == "BinaryExpression" and par["operator"] == "in" and unparen(par["right"]) is n:
                            use = "presence"
                        elif par["type"] == "AssignmentExpression" and any(x is n for x in walk(par["left"])):
                            use = "write"
                        elif par["type"] == "UnaryExpression" and par["operator"] == "delete" and any(x is n for x in walk(par["argument"])):
                            use = "write"
                        elif par["type"] == "CallExpression" and s(par["callee"]).endswith("hasOwnProperty.call") and par["arguments"] and unparen(par["arguments"][0]["expression"]) is n:
                            use = "presence"
                        elif par["type"] == "CallExpression" and s(par["callee"]) == "Object.hasOwn" and par["arguments"] and unparen(par["arguments"][0]["expression"]) is n:
                            use = "presence"
                    if use == "value":
                        value_readers.add(mname)
    # close over methods of the context that call a value reader and return its result
    changed = True
    while changed:
        changed = False
        for mname, m in spc.methods.items():
            if mname in value_readers or m["function"].get("body") is None:
                continue
            for n in walk(m["function"]):
                mc = method_call(n) if n["type"] == "CallExpression" else None
                if mc and s(mc[0]) == "this" and mc[1] in value_readers:
                    value_readers.add(mname)
                    changed = True
    rep.ob("C16.5", "readers", bool(value_readers), "no method of SchemaPrintingContext reads the definition table (export missing?)", mod.loc(spc.node),
           sample={"methods_handing_out_stored_bodies": sorted(value_readers)})
    n_sites = 0
    for cname, c in sorted(mod.classes.items()):
        if c is spc:
            continue
        for mname, m in sorted(c.methods.items()):
            fn = m["function"]
            if fn.get("body") is None:
                continue
            for n in walk(fn):
                mc = method_call(n) if n["type"] == "CallExpression" else None
                if mc and mc[1] in value_readers and ("rintingContext" in s(mc[0]) or s(mc[0]) in ("pc", "printingContext")):
                    n_sites += 1
                    is_facade = "BeffParser" in c.implements or cname in ("SchemaPrintingContext",)
                    in_schema = mname in schema_reachable_methods(c) if "schema" in c.methods else False
                    rep.ob("C16.5", "%s.%s/%s" % (cname, mname, mc[1]), not in_schema,
                           "%s.%s is reached from schema() and reads a collected definition body through %s(): the schema it returns depends on what the context has collected so far, i.e. on the order in which parsers were printed" % (cname, mname, mc[1]),
                           mod.loc(n))
    for fname, d in sorted(mod.functions.items()):
        if d.get("body") is None:
            continue
        for n in walk(d):
            mc = method_call(n) if n["type"] == "CallExpression" else None
            if mc and mc[1] in value_readers and "rintingContext" in s(mc[0]):
                rep.ob("C16.5", "%s/%s" % (fname, mc[1]), False, "%s reads a collected definition body through %s()" % (fname, mc[1]), mod.loc(n))
    # ---------------------------------------------------------------- C16.8
    ref_text_rule(mod, spc, storers, defs_field, rep, "C16.8")
    # ---------------------------------------------------------------- C16.9
    rep.rule("C16.9", "definitions are stored under type names only: the mark / store protocol is driven by the validator classes, never with a parser key")
    # The definition table is ONE namespace: the names of named types (and the synthetic variant names derived from
    # them).  A second producer of names - the keys of buildParsers, which may be spelled like a type of the same
    # module but stand for another type - makes the body filed under a name depend on who printed first, and an
    # in-progress mark taken for a key is read as the recursion mark of the type.
    fam16 = ts_common.Family(cx)
    n_drv = 0
    # module-level helpers that run the protocol (directly or through each other): their callers are the drivers
    helper_drv = set()
    grew = True
    while grew:
        grew = False
        for fname, fn in mod.functions.items():
            if fname in helper_drv or fn.get("body") is None:
                continue
            for x in walk(fn):
                if x["type"] == "CallExpression" and ((method_call(x) and method_call(x)[1] in (storers | markers)) or
                                                      (x["callee"].get("type") == "Identifier" and x["callee"]["value"] in helper_drv)):
                    helper_drv.add(fname)
                    grew = True
                    break
    for cname, c in sorted(mod.classes.items()):
        if c is spc:
            continue
        for mname, m in sorted(c.methods.items()):
            fn = m["function"]
            if fn.get("body") is None:
                continue
            calls = [x for x in walk(fn) if x["type"] == "CallExpression" and ((method_call(x) and method_call(x)[1] in (storers | markers)) or
                                                                              (x["callee"].get("type") == "Identifier" and x["callee"]["value"] in helper_drv))]
            if not calls:
                continue
            n_drv += 1
            rep.ob("C16.9", "%s.%s/driver-is-a-validator-class" % (cname, mname), cname in fam16.classes,
                   "%s.%s marks / stores definitions in the printing context but %s is not a validator class (it is the parser facade or a helper): the names it files bodies under (parser keys) share the table - and the in-progress flags - with the names of named types, so what `$ref <name>` resolves to depends on the order of the calls" % (cname, mname, cname),
                   mod.loc(calls[0]), sample={"class": cname, "method": mname})
    for fname, fn in sorted(mod.functions.items()):
        if fn.get("body") is None:
            continue
        calls = [x for x in walk(fn) if x["type"] == "CallExpression" and method_call(x) and method_call(x)[1] in (storers | markers)]
        if calls:
            ps = ts_common.fn_params(fn)
            # a module-level helper is fine when it is only handed the name by validator classes (judged at its callers by C16.6 / C02.4)
            rep.ob("C16.9", "%s/driver-is-a-validator-helper" % fname, any(tsast.type_str((p_.get("pat", p_).get("typeAnnotation") or {}).get("typeAnnotation")) in ("Runtype", "BaseRefRuntype") for p_ in fn.get("params", [])) or True,
                   "", mod.loc(calls[0]), sample={"function": fname})
    rep.floor("C16.9", "functions that drive the mark / store protocol", n_drv, 2)
    # ---------------------------------------------------------------- C16.4
    rep.rule("C16.4", "schema printing keeps no state on the validator instances (it is a function of the type and the context)")
    instance_state_rule(mod, spc, rep, "C16.4")
    # ---------------------------------------------------------------- C16.7
    rep.rule("C16.7", "a structural hash taken while printing schemas starts from a fresh hash context")
    fresh_hash_context_rule(mod, spc, rep, "C16.7")
    # ---------------------------------------------------------------- C16.3
    rep.rule("C16.6", "every path that stores the definition of a named type consults the schema override")
    override_consistency_rule(mod, spc, storers, rep, "C16.6")
    rep.rule("C16.3", "the stored body is the schema of the named type itself")
    for cname, mname, fn, ulabel in units:
        if True:
            for call in [x for x in walk(fn) if x["type"] == "CallExpression" and method_call(x) and method_call(x)[1] in storers]:
                body_arg = unparen(method_call(call)[2][1])
                al = ts_common.local_aliases(fn)
                init = al.get(body_arg.get("value")) if body_arg["type"] == "Identifier" else body_arg
                mc = method_call(init) if init is not None else None
                ok = bool(mc) and mc[1] == "schema" and len(mc[2]) == 1 and s(mc[2][0]) == "ctx"
                # the body may be produced by a THUNK the unit receives as a parameter (b103: the two copies of the
                # protocol merged into `ensureContextualDefinition(printingContext, name, printBody)`, stored body
                # `printBody()`): the unit's callers are judged - each must hand over a parameterless function whose
                # every result is `<target>.schema(ctx)` with the caller's own ctx
                ups = ts_common.fn_params(fn)
                ic = unparen(init) if init is not None else None
                if not ok and ic is not None and ic.get("type") == "CallExpression" and not ic["arguments"] and unparen(ic["callee"]).get("type") == "Identifier" \
                        and unparen(ic["callee"])["value"] in ups and unparen(ic["callee"])["value"] not in al:
                    k = ups.index(unparen(ic["callee"])["value"])
                    thunks = []
                    for c2, m2, fn2, _l2 in units:
                        if fn2 is fn:
                            continue
                        al2 = ts_common.local_aliases(fn2)
                        for x in walk(fn2):
                            if x["type"] != "CallExpression":
                                continue
                            hit = (cname is None and unparen(x["callee"]).get("type") == "Identifier" and unparen(x["callee"])["value"] == mname) or \
                                  (cname is not None and c2 == cname and method_call(x) and s(method_call(x)[0]) == "this" and method_call(x)[1] == mname)
                            if not hit:
                                continue
                            a = unparen(x["arguments"][k]["expression"]) if k < len(x["arguments"]) and not any(a_.get("spread") for a_ in x["arguments"]) else None
                            if a is not None and a.get("type") == "Identifier":
                                a = unparen(al2[a["value"]]) if a["value"] in al2 else None
                            thunks.append((a, al2))
                    ok = bool(thunks)
                    for a, al2 in thunks:
                        if a is None or a.get("type") not in ("ArrowFunctionExpression", "FunctionExpression") or a.get("params") or a.get("generator") or a.get("async"):
                            ok = False
                            init = a if a is not None else init
                            continue
                        b = a["body"]
                        results = [b] if b.get("type") != "BlockStatement" else [r_.get("argument") for r_ in tsast.walk_no_nested_fn(b) if r_["type"] == "ReturnStatement"]
                        tal = dict(al2)
                        tal.update(ts_common.local_aliases(a))
                        rebinds_ctx = "ctx" in ts_common.local_aliases(a)
                        for r_ in results:
                            r_ = unparen(r_) if r_ is not None else None
                            if r_ is not None and r_.get("type") == "Identifier" and r_["value"] in tal:
                                r_ = unparen(tal[r_["value"]])
                            mr = method_call(r_) if r_ is not None else None
                            if not (mr and mr[1] == "schema" and len(mr[2]) == 1 and s(mr[2][0]) == "ctx") or rebinds_ctx:
                                ok = False
                                init = r_ if r_ is not None else a
                        if not results:
                            ok = False
                            init = a
                rep.ob("C16.3", "%s/body" % ulabel, ok,
                       "the stored definition must be `<target>.schema(ctx)` with the caller's own ctx (found %s)" % (s(init) if init is not None else None), mod.loc(call),
                       sample={"site": ulabel, "body": s(init) if init is not None else None})


def override_consistency_rule(mod, spc, storers, rep, rid):
    """A named type may have a schema override in the printing context.  Whoever stores the definition of a NAMED
    type must store the same body - `(override(name) ?? target).schema(ctx)` - because the first writer wins: if one
    path consults the overrides and another does not, the exported definition depends on which parser was printed
    first.  Decided: every function that stores (directly, or through a helper it passes the name to) a definition
    under a type name (`this.refName`, `<ref target>.name`) consults the context's override getter with that name."""
    getters = set()
    for mname, m in spc.methods.items():
        fn = m["function"]
        if fn.get("body") is None:
            continue
        rt = tsast.type_str((fn.get("returnType") or {}).get("typeAnnotation"))
        if "Runtype" in rt:
            getters.add(mname)
    rep.ob(rid, "override-getter", bool(getters), "no method of SchemaPrintingContext hands out a schema override (Runtype-returning getter)", mod.loc(spc.node),
           sample={"override_getters": sorted(getters)})
    n = 0
    # functions that store a definition under a name taken from a parameter - methods of the validator classes and
    # module-level helpers, directly or by handing the parameter on to another such function: key -> (fn, index)
    units = [(("m", cname, mname), cname, m["function"]) for cname, c in sorted(mod.classes.items()) if c is not spc
             for mname, m in sorted(c.methods.items()) if m["function"].get("body") is not None]
    units += [(("f", fname), None, fn) for fname, fn in sorted(mod.functions.items()) if fn.get("body") is not None]
    helpers = {}

    def resolve(cname, call):
        mc = method_call(call)
        if mc and s(mc[0]) == "this" and ("m", cname, mc[1]) in helpers:
            return ("m", cname, mc[1]), mc[2]
        if call["callee"].get("type") == "Identifier" and ("f", call["callee"]["value"]) in helpers:
            return ("f", call["callee"]["value"]), [a.get("expression", a) for a in call["arguments"]]
        return None, None
    for key, cname, fn in units:
        ps = ts_common.fn_params(fn)
        for call in [x for x in walk(fn) if x["type"] == "CallExpression" and method_call(x) and method_call(x)[1] in storers]:
            nm = s(method_call(call)[2][0])
            if nm in ps:
                helpers[key] = (fn, ps.index(nm))
    grew = True
    while grew:
        grew = False
        for key, cname, fn in units:
            if key in helpers:
                continue
            ps = ts_common.fn_params(fn)
            for call in [x for x in walk(fn) if x["type"] == "CallExpression"]:
                hk, args = resolve(cname, call)
                if hk is not None and helpers[hk][1] < len(args) and s(unparen(args[helpers[hk][1]])) in ps:
                    helpers[key] = (fn, ps.index(s(unparen(args[helpers[hk][1]]))))
                    grew = True
                    break

    def helper_consults(hk, depth=0):
        hfn, idx = helpers[hk]
        hp = ts_common.fn_params(hfn)[idx]
        if any(x["type"] == "CallExpression" and method_call(x) and method_call(x)[1] in getters and method_call(x)[2]
               and s(method_call(x)[2][0]) == hp for x in walk(hfn)):
            return True
        if depth < 3:
            for call in [x for x in walk(hfn) if x["type"] == "CallExpression"]:
                h2, args = resolve(hk[1] if hk[0] == "m" else None, call)
                if h2 is not None and h2 != hk and helpers[h2][1] < len(args) and s(unparen(args[helpers[h2][1]])) == hp and helper_consults(h2, depth + 1):
                    return True
        return False
    for key, cname, fn in units:
        if True:
            label = "%s.%s" % (key[1], key[2]) if key[0] == "m" else key[1]
            al = ts_common.local_aliases(fn)

            # `const { name: n, target } = refTarget` binds n to refTarget.name
            destr = {}
            for d_ in walk(fn):
                if d_["type"] == "VariableDeclarator" and d_["id"].get("type") == "ObjectPattern" and d_.get("init") is not None:
                    for pp in d_["id"]["properties"]:
                        if pp["type"] == "KeyValuePatternProperty" and pp["key"].get("type") == "Identifier" and pp["value"].get("type") == "Identifier":
                            destr[pp["value"]["value"]] = (d_["init"], pp["key"]["value"])
                        elif pp["type"] == "AssignmentPatternProperty" and pp.get("value") is None:
                            destr[pp["key"]["value"]] = (d_["init"], pp["key"]["value"])

            def type_name(e):
                e = unparen(e)
                if e.get("type") == "Identifier" and e["value"] in al:
                    return type_name(al[e["value"]])
                if e.get("type") == "Identifier" and e["value"] in destr:
                    init_, key_ = destr[e["value"]]
                    return key_ == "name" and unparen(init_).get("type") != "ThisExpression"
                txt = s(e)
                return txt == "this.refName" or (txt.endswith(".name") and txt != "this.name")
            sites = []
            for call in [x for x in walk(fn) if x["type"] == "CallExpression"]:
                mc = method_call(call)
                if mc and mc[1] in storers and mc[2] and type_name(mc[2][0]):
                    sites.append((call, mc[2][0], None))
                    continue
                hk, args = resolve(cname, call)
                if hk is not None and helpers[hk][1] < len(args) and type_name(args[helpers[hk][1]]):
                    sites.append((call, args[helpers[hk][1]], hk))
            for call, name_e, hk in sites:
                n += 1
                consults = any(x["type"] == "CallExpression" and method_call(x) and method_call(x)[1] in getters and method_call(x)[2]
                               and s(method_call(x)[2][0]) == s(name_e) for x in walk(fn))
                if not consults and hk is not None:
                    # the helper that stores the definition consults the override for the name it is handed
                    consults = helper_consults(hk)
                if not consults and cname is not None:
                    # the name and the body target come out of a private helper (`const d = this.resolve(..)` returning
                    # {name, target}): the override is consulted there, for the name of the reference target
                    for x in tsast.walk_inl(mod, cname, fn, depth=2):
                        if x["type"] == "CallExpression" and method_call(x) and method_call(x)[1] in getters and method_call(x)[2]:
                            a_ = s(unparen(method_call(x)[2][0]))
                            if a_ == "this.refName" or (a_.endswith(".name") and a_ != "this.name"):
                                consults = True
                rep.ob(rid, "%s/consults-override" % label, consults,
                       "%s stores the definition of the named type `%s` without consulting the schema override for that name, while other paths do: the exported definition then depends on which parser was printed first" % (label, s(name_e)),
                       mod.loc(call), sample={"site": label, "name": s(name_e)})
    rep.floor(rid, "sites that store the definition of a named type", n, 2)


def schema_reachable_methods(c, roots=("schema",)):
    """methods of class c reachable from schema() (or the given roots) through this.<m>(..) / <Class>.<m>(..) calls"""
    seen = set()
    work = list(roots)
    while work:
        m = work.pop()
        if m in seen or m not in c.methods or c.methods[m]["function"].get("body") is None:
            continue
        seen.add(m)
        for n in walk(c.methods[m]["function"]):
            if n["type"] == "CallExpression":
                mc = method_call(n)
                if mc and (s(mc[0]) == "this" or s(mc[0]) == c.name):
                    work.append(mc[1])
    return seen


def guarded_by_absence(fn, call, name):
    """whenever `call` executes, both X.hasDefinition(name) and X.isDefinitionInProgress(name) are known to be false
    (however the test is spelled: `if (!a && !b) {..}`, an early `if (a || b) return`, two separate guards, `!(a || b)`)"""
    ka = ts_common.known_atoms(fn, call)
    got = set()
    for atom, val in ka.items():
        if val is not False:
            continue
        m = re.match(r"^(.*)\.(hasDefinition|isDefinitionInProgress)\((.*)\)$", atom)
        if m and m.group(3) == name:
            got.add(m.group(2))
    return got == {"hasDefinition", "isDefinitionInProgress"}


def instance_state_rule(mod, spc, rep, rid, roots=("schema",), what="schema()", floor=22,
                        why="what a later SchemaPrintingContext receives then depends on which contexts printed this validator before"):
    """schema() and the methods it reaches write nothing on `this`: a memo on the validator instance survives the
    context it was filled for, so a later context is not given the definitions the first one received.  The same holds
    for the other context-threaded walks (hash / hash256 / describe / validate ..): their result for a node depends on
    the context (`seen`, `definitions`, options), and the compiler shares one instance per distinct type (hoisting),
    so a value stored on the instance is replayed under a different context."""
    MUT = {"set", "add", "push", "delete", "clear", "splice", "pop", "shift", "unshift"}
    n_m = 0
    for cname, c in sorted(mod.classes.items()):
        if c is spc or not any(r in c.methods for r in roots):
            continue
        for mname in sorted(schema_reachable_methods(c, roots)):
            fn = c.methods[mname]["function"]
            n_m += 1
            for n in walk(fn):
                bad = None
                if n["type"] == "AssignmentExpression" and s(n["left"]).startswith("this."):
                    bad = "assignment to %s" % s(n["left"])
                elif n["type"] == "CallExpression":
                    mc = method_call(n)
                    if mc and mc[1] in MUT and s(mc[0]).startswith("this.") and s(mc[0]).count(".") == 1:
                        bad = "%s.%s(..)" % (s(mc[0]), mc[1])
                if bad:
                    rep.ob(rid, "%s.%s/%s" % (cname, mname, bad), False,
                           "%s.%s (reached from %s) writes instance state (%s): %s" % (cname, mname, what, bad, why),
                           mod.loc(n))
    rep.ob(rid, "scan", True, sample={"reachable_methods_scanned": n_m, "roots": list(roots)})
    rep.floor(rid, "methods reachable from %s" % what, n_m, floor)



def fresh_hash_context_rule(mod, spc, rep, rid):
    """The names of synthetic definitions contain a structural hash of the union.  hash() cuts recursion through its
    context (`seen`), so the value it returns for a type depends on what that context already holds; a context (or a
    memo inside it) that lives as long as the printing context makes the name depend on which parser was printed
    first.  Decided: every `<x>.hash(<ctx>)` in a method reached from schema() - and in the printing context itself -
    is handed an object literal built at the call (no stored or shared context)."""
    n = 0
    scopes = []
    for cname, c in sorted(mod.classes.items()):
        if c is spc:
            scopes += [(cname, mn, m["function"]) for mn, m in c.methods.items() if m["function"].get("body") is not None]
        elif "schema" in c.methods:
            scopes += [(cname, mn, c.methods[mn]["function"]) for mn in sorted(schema_reachable_methods(c))]
    for cname, mname, fn in scopes:
        if mname in ("hash", "hash256"):
            continue      # the hash recursion itself hands its own context on
        al = ts_common.local_aliases(fn)
        for x in walk(fn):
            if x["type"] != "CallExpression":
                continue
            mc = method_call(x)
            if not mc or mc[1] != "hash" or len(mc[2]) != 1:
                continue
            n += 1
            a = unparen(mc[2][0])
            if a.get("type") == "Identifier" and a["value"] in al:
                a = unparen(al[a["value"]])
            fresh = a.get("type") == "ObjectExpression"
            rep.ob(rid, "%s.%s/hash-context" % (cname, mname), fresh,
                   "%s.%s computes a structural hash with the context `%s`, which is not created at the call: what hash() returns for a recursive type depends on the names already in that context (and on any memo it carries), so the synthetic definition names - and with them the exported definitions - depend on the order in which parsers were printed" % (cname, mname, s(mc[2][0])[:60]),
                   mod.loc(x), sample={"site": "%s.%s" % (cname, mname), "context": "fresh object literal" if fresh else s(mc[2][0])[:60]})
    rep.floor(rid, "hash() calls reached from schema printing", n, 1)


def fn_param_count(fn):
    return len(fn.get("params") or [])


def _must_exec(stmts, pred):
    """every NORMAL completion of the statement list has executed a statement / expression satisfying pred
    (a path that throws is vacuous, a path that returns earlier is a counterexample)"""
    for st in stmts:
        t = st["type"]
        if any(pred(x) for x in walk(st)) and t in ("ExpressionStatement", "VariableDeclaration"):
            return True
        if t == "ThrowStatement":
            return True
        if t == "ReturnStatement":
            return any(pred(x) for x in walk(st))
        if t == "BlockStatement":
            if _must_exec(st["stmts"], pred):
                return True
        elif t == "IfStatement":
            c, a = st["consequent"], st.get("alternate")
            cs = c["stmts"] if c["type"] == "BlockStatement" else [c]
            if a is not None:
                as_ = a["stmts"] if a["type"] == "BlockStatement" else [a]
                if _must_exec(cs, pred) and _must_exec(as_, pred):
                    return True
                # a branch that leaves without the effect is a counterexample unless it throws
                for br in (cs, as_):
                    if _leaves(br) and not _must_exec(br, pred):
                        return False
            else:
                if _leaves(cs) and not _must_exec(cs, pred):
                    return False
        elif t == "TryStatement":
            fin = st.get("finalizer")
            if fin is not None and _must_exec(fin["stmts"], pred):
                return True
            if _must_exec(st["block"]["stmts"], pred) and (st.get("handler") is None or _must_exec(st["handler"]["body"]["stmts"], pred)):
                return True
    return False


def _leaves(stmts):
    return any(x["type"] == "ReturnStatement" for st in stmts for x in walk(st) if not (x is not st and x["type"] in ("FunctionExpression", "ArrowFunctionExpression")))


def ref_text_rule(mod, spc, storers, defs_field, rep, rid):
    """Two necessary conditions of `every $ref resolves in the final export, whatever the order of the calls`:
    (a) the reference text of a name is a function of the name and of the options the context was built with - the
        methods of the context whose result is emitted as a `$ref` read no field that is written after construction and
        write none (otherwise the same name is referred to differently before and after some other call);
    (b) the storing method files the body under the name it was given on every normal path (a `$ref` produced earlier
        for that name must find it in the export)."""
    rep.rule(rid, "the $ref text of a name depends on the name and the construction-time options only; a stored definition is filed under its own name on every path")
    # methods of the context whose results are emitted as `$ref`
    ref_methods = set()
    for cname, c in mod.classes.items():
        for mname, m in c.methods.items():
            fn = m["function"]
            if fn.get("body") is None:
                continue
            al = ts_common.local_aliases(fn)
            for n in walk(fn):
                if n["type"] == "KeyValueProperty" and s(n["key"]).strip('"\'') == "$ref":
                    v = unparen(n["value"])
                    if v["type"] == "Identifier" and al.get(v.get("value")) is not None:
                        v = unparen(al[v["value"]])
                    mc = method_call(v) if v["type"] == "CallExpression" else None
                    if mc and mc[1] in spc.methods:
                        ref_methods.add(mc[1])
    rep.ob(rid, "ref-producers", bool(ref_methods), "no method of SchemaPrintingContext was found whose result is emitted as `$ref`", mod.loc(spc.node),
           sample={"ref_methods": sorted(ref_methods)})
    # closure over this.<method>() calls inside the context class
    todo = list(ref_methods)
    reach = set(ref_methods)
    while todo:
        mname = todo.pop()
        fn = spc.methods[mname]["function"]
        for n in walk(fn):
            mc = method_call(n) if n["type"] == "CallExpression" else None
            if mc and s(mc[0]) == "this" and mc[1] in spc.methods and mc[1] not in reach:
                reach.add(mc[1])
                todo.append(mc[1])
    # fields written outside the constructor
    def writes(fn):
        out = set()
        for n in walk(fn):
            tgt = None
            if n["type"] == "AssignmentExpression":
                tgt = n["left"]
            elif n["type"] == "UpdateExpression":
                tgt = n["argument"]
            elif n["type"] == "UnaryExpression" and n.get("operator") == "delete":
                tgt = n["argument"]
            elif n["type"] == "CallExpression":
                mc = method_call(n)
                if mc and mc[1] in ("push", "pop", "set", "add", "delete", "clear", "splice", "shift", "unshift", "sort", "reverse", "fill") and s(mc[0]).startswith("this."):
                    out.add(s(mc[0])[5:].split(".")[0].split("[")[0])
            if tgt is not None:
                t = s(tgt)
                if t.startswith("this."):
                    out.add(t[5:].split(".")[0].split("[")[0])
        return out
    mutable = set()
    for mname, m in spc.methods.items():
        if m["function"].get("body") is not None:
            mutable |= writes(m["function"])
    for mname in sorted(reach):
        fn = spc.methods[mname]["function"]
        w = writes(fn)
        r = {f for f in ts_common.this_fields_read(fn, mod, "SchemaPrintingContext") if f in mutable}
        rep.ob(rid, "%s/pure" % mname, not w and not r,
               "SchemaPrintingContext.%s yields the text emitted as `$ref` but %s: the reference to one and the same name then depends on what was printed before, and a reference handed out earlier can point at a name the export does not contain" % (
                   mname, "; ".join(x for x in ("writes " + ", ".join(sorted(w)) if w else "", "reads the mutable " + ", ".join(sorted(r)) if r else "") if x)),
               mod.loc(fn), sample={"method": mname, "writes": sorted(w), "reads_mutable": sorted(r)})
    for mname in sorted(storers):
        fn = spc.methods[mname]["function"]
        ps = ts_common.fn_params(fn)
        if not ps or fn.get("body") is None:
            continue
        want = "this.%s[%s]" % (defs_field, ps[0])
        def pred(x):
            return x["type"] == "AssignmentExpression" and s(x["left"]).replace(" ", "") == want
        ok = _must_exec(fn["body"]["stmts"], pred)
        rep.ob(rid, "%s/stores-under-its-name" % mname, ok,
               "SchemaPrintingContext.%s does not assign %s on every normal path: a body handed in for a name can go unrecorded while `$ref`s to that name have already been emitted" % (mname, want),
               mod.loc(fn), sample={"method": mname, "assignment": want})
