#!/bin/sh
# Build the analysis engines offline. Idempotent.
set -e
cd "$(dirname "$0")"
exec ./check --setup
